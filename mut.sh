#!/bin/sh
# usage: mut.sh <sed-expr> <file> -- <govc verify args...> : run verify on a scratch copy with a sed mutation
rm -rf /tmp/w/r && mkdir -p /tmp/w && rsync -a --exclude .git /repo/ /tmp/w/r/
expr="$1"; file="$2"; shift 3
before=$(md5sum /tmp/w/r/$file)
sed -i "$expr" /tmp/w/r/$file
[ "$before" = "$(md5sum /tmp/w/r/$file)" ] && echo "MUTATION DID NOT APPLY"
/verif/bin/govc verify -repo /tmp/w/r "$@" 2>&1 | grep -v '^loaded' | cut -c1-220
rm -rf /tmp/w/r
