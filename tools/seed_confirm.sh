#!/bin/sh
# seed_confirm.sh <seed-name> <property>
# Confirms a seeded change delivered by a sub-agent in /tmp/seed/<name>/out (or already
# stored in /verif/seeded/<name>): on a scratch copy of /repo's working tree
#   1. the patched tree builds and the whole existing suite passes,
#   2. the demonstration fails with the patch and passes without,
#   3. runs ./check <property> against the patched copy (expected: VIOLATION).
# Results are written to /verif/seeded/<name>/confirm.log. The scratch copy is removed.
name=$1; prop=$2
export GOFLAGS=-mod=mod GOPROXY=off GOSUMDB=off GOTOOLCHAIN=local
V=/verif; S=$V/seeded/$name
mkdir -p $S
if [ -d /tmp/seed/$name/out ]; then cp /tmp/seed/$name/out/patch.diff /tmp/seed/$name/out/notes.md $S/ 2>/dev/null; cp /tmp/seed/$name/out/demo_test.go $S/demo_test.go.txt; fi
W=$(mktemp -d /tmp/w/sc.XXXXXX); mkdir -p $W; rsync -a --exclude .git /repo/ $W/r/
cd $W/r
log=$S/confirm.log; : > $log
place=$(grep -m1 -o 'place in: *[^ ]*' $S/demo_test.go.txt | sed 's/place in: *//; s/[`"]//g; s/\/$//')
[ -z "$place" ] && place=.
echo "demo directory: $place" >> $log
if ! patch -p1 -s < $S/patch.diff >> $log 2>&1; then echo "PATCH DOES NOT APPLY" | tee -a $log; rm -rf $W; exit 1; fi
( go build ./... && go test -vet=off -count=1 ./... ) > $W/suite.log 2>&1 && echo "suite with patch: PASS" >> $log || { echo "suite with patch: FAIL" >> $log; tail -20 $W/suite.log >> $log; }
cp $S/demo_test.go.txt $place/zz_seed_demo_test.go
go test -vet=off -count=1 ./$place > $W/demo1.log 2>&1 && echo "demo with patch: PASS (unexpected)" >> $log || echo "demo with patch: FAIL (expected)" >> $log
patch -R -p1 -s < $S/patch.diff
go test -vet=off -count=1 ./$place > $W/demo2.log 2>&1 && echo "demo without patch: PASS (expected)" >> $log || { echo "demo without patch: FAIL (unexpected)" >> $log; tail -20 $W/demo2.log >> $log; }
rm -f $place/zz_seed_demo_test.go
patch -p1 -s < $S/patch.diff
if [ -n "$prop" ] && grep -q "\"$prop\"" $V/props.json; then
  cd $V && VERIF_OUT=$W/out VERIF_REPO=$W/r ./check $prop --tier quick > $W/check.log 2>&1; rc=$?
  echo "check $prop on patched tree: exit $rc" >> $log
  grep -E 'VIOLATION|failed obligation|KNOWN' $W/check.log | head -8 >> $log
else
  echo "check $prop: not built yet" >> $log
fi
rm -rf $W
cat $log
