#!/bin/sh
# seeds_check.sh [seed ...] — must-fail corpus: applies every stored seeded change
# (/verif/seeded/<seed>/patch.diff) to a scratch copy of /repo's working tree and runs
# the quick check of its property there. Every seed must be reported (exit 1 and a
# VIOLATION line); a seed that passes is a hole in the machinery. Scratch copies removed.
export GOFLAGS=-mod=mod GOPROXY=off GOSUMDB=off GOTOOLCHAIN=local
V=/verif
seeds="$@"; [ -z "$seeds" ] && seeds=$(ls $V/seeded)
mkdir -p /tmp/w
one() {
  name=$1; prop=$(echo $name | cut -c1-3)
  W=$(mktemp -d /tmp/w/sk.XXXXXX); rsync -a --exclude .git /repo/ $W/r/
  if ! (cd $W/r && patch -p1 -s < $V/seeded/$name/patch.diff >/dev/null 2>&1); then echo "$name: PATCH DOES NOT APPLY"; rm -rf $W; return; fi
  (cd $V && VERIF_OUT=$W/out VERIF_REPO=$W/r timeout 900 ./check $prop --tier quick > $W/check.log 2>&1); rc=$?
  v=$(grep -m1 'failed obligation' $W/check.log | cut -c1-160)
  if [ $rc = 1 ] && grep -q "^VIOLATION property=$prop" $W/check.log; then echo "$name: caught  $v"; else echo "$name: MISSED (exit $rc)"; fi
  rm -rf $W
}
n=0
for s in $seeds; do
  one $s &
  n=$((n+1)); [ $((n % 3)) = 0 ] && wait
done
wait
