#!/usr/bin/env python3
"""Regenerates /verif/MANIFEST.json from props.json (claimed properties) and na.json (not claimed)."""
import json, subprocess, os
here = os.path.dirname(os.path.dirname(os.path.abspath(__file__)))
props = json.load(open(os.path.join(here, 'props.json')))
na = json.load(open(os.path.join(here, 'na.json')))
ids = [json.loads(l)['id'] for l in open(os.path.join(here, 'properties.jsonl'))]
hooks = subprocess.run(['git', '-C', '/repo', 'log', '--format=%H %s'], capture_output=True, text=True).stdout.splitlines()
hook_commits = [l.split()[0] for l in hooks if l.split(' ', 1)[1].startswith('verif:')]
checks = []
for i in ids:
    if i not in props or not props[i].get('claimed', True):
        continue
    p = props[i]
    checks.append({
        "property_id": i,
        "quick_cmd": f"./check {i} --tier quick",
        "thorough_cmd": f"./check {i} --tier thorough",
        "evidence_file": f"/verif/evidence/{i}.json",
        "replay_cmd_template": "cat {path}",
        "engine": "govc",
        "technique": "contract-based deductive verification: weakest-precondition VCs generated from go/ssa of the real functions, contracts in /repo/**/contracts_verif.go, discharged by z3/cvc5" + (("; plus bounded stand-ins (labelled bounded, never counted as proved) for clauses no contract decides: " + ", ".join(s["name"] for s in p.get("stand_ins", []))) if p.get("stand_ins") else ""),
        "level_claimed": {"category": "proof", "text": p.get("level_text", ""), "design_ref": p.get("design_ref", "DESIGN.md §5 " + i)},
        "level_note": p.get("level_note", ""),
    })
m = {
    "version": 1,
    "setup_cmd": "./setup.sh",
    "hooks": {"guard": "verif", "enable": "-tags verif (comment-only contract files contracts_verif.go parsed by govc; they contain no executable code)",
              "baseline_off_cmd": "cd /repo && go test -mod=mod -vet=off -count=1 -timeout 25m ./...",
              "source_commits": hook_commits, "add_only": True},
    "engines": [{"name": "govc", "path": "cmd/govc", "serves_properties": [c["property_id"] for c in checks],
                 "kind_free_text": "self-written weakest-precondition VC generator over go/ssa (x/tools v0.29.0) of /repo's working tree; contracts as //@ comments in /repo/**/contracts_verif.go (build tag verif) and assumed library contracts in /verif/specs; one SMT-LIB query per obligation, raced on z3 5.1.0, z3 4.8.12 and cvc5 1.0"}],
    "checks": checks,
    "notes": "See DESIGN.md. Every claimed check is a deductive proof over contracts of the real code; clauses of a property that contracts cannot decide are listed in level_note and in the evidence under not_decided; where a bounded stand-in (a harness under harness/, injected into the real package with go test -overlay) checks such a clause on inputs built from their parts, it is labelled bounded in the evidence and never counted as proved.",
    "not_applicable": [{"property_id": i, "reason": na.get(i, "contracts not completed yet (framework under construction)")} for i in ids if i not in [c["property_id"] for c in checks]],
}
json.dump(m, open(os.path.join(here, 'MANIFEST.json'), 'w'), indent=1)
print("claimed:", [c["property_id"] for c in checks])
