#!/bin/sh
# run_thorough.sh [ids...] — runs the thorough command of the claimed properties (evidence to a scratch
# directory so that the committed quick evidence is left alone) and prints verdict, self-test summary and survivors.
cd /verif
ids="$@"; [ -z "$ids" ] && ids=$(python3 -c "import json;print(' '.join(sorted(json.load(open('/verif/props.json')).keys())))")
out=${THOROUGH_OUT:-/tmp/w/thorough}; mkdir -p $out
for p in $ids; do
  VERIF_OUT=$out ./check $p --tier thorough > $out/$p.log 2>&1; rc=$?
  echo "[$rc] $(grep -E '^C[0-9]+ thorough' $out/$p.log)"
  grep -E '^SELFTEST|^VIOLATION' $out/$p.log
  python3 - "$out/evidence/$p.json" <<'PY'
import json,sys
try:
    st=json.load(open(sys.argv[1]))['coverage'].get('selftest') or {}
    for s in st.get('mutant_survivors') or []: print('   survivor:', s[:200])
    for s in st.get('seeded_changes') or []:
        if s.get('status')!='reported': print('   SEED NOT REPORTED:', s)
except Exception as e: print('   (no evidence:', e, ')')
PY
done
