#!/bin/sh
# run_thorough.sh [ids...] — runs the thorough command of the claimed properties on a SNAPSHOT of /verif and of /repo's
# working tree (so that edits made while it runs do not get mixed in), evidence to a scratch directory so that the
# committed quick evidence is left alone; prints verdict, self-test summary and survivors.
ids="$@"; [ -z "$ids" ] && ids=$(python3 -c "import json;print(' '.join(sorted(json.load(open('/verif/props.json')).keys())))")
out=${THOROUGH_OUT:-/tmp/w/thorough}; mkdir -p $out
snap=/tmp/w/snap; rm -rf $snap; mkdir -p $snap
rsync -a --exclude .git --exclude replays /verif/ $snap/verif/
rsync -a --exclude .git /repo/ $snap/repo/
cd $snap/verif
for p in $ids; do
  VERIF_REPO=$snap/repo VERIF_OUT=$out ./check $p --tier thorough > $out/$p.log 2>&1; rc=$?
  echo "[$rc] $(grep -E '^C[0-9]+ thorough' $out/$p.log)"
  grep -E '^SELFTEST|^VIOLATION' $out/$p.log
  python3 - "$out/evidence/$p.json" <<'PY'
import json,sys
try:
    st=json.load(open(sys.argv[1]))['coverage'].get('selftest') or {}
    for s in st.get('mutant_survivors') or []: print('   survivor:', s[:200])
    for s in st.get('seeded_changes') or []:
        if s.get('status')!='reported': print('   SEED NOT REPORTED:', s)
except Exception as e: print('   (no evidence:', e, ')')
PY
done
rm -rf $snap
