#!/bin/sh
# Runs the quick check of every claimed property; prints one line each; exit 1 if any fails.
cd "$(dirname "$0")/.."
rc=0
for p in $(python3 -c "import json;print(' '.join(c['property_id'] for c in json.load(open('MANIFEST.json'))['checks']))"); do
  out=$(./check $p --tier quick 2>&1); st=$?
  echo "$out" | tail -1 | sed "s/^/[$st] /"
  if [ $st -ne 0 ]; then rc=1; echo "$out" | grep -E 'VIOLATION|failed obligation' | head -5; fi
done
exit $rc
