#!/usr/bin/env python3
"""Writes seeded/<seed>/meta.json for every stored seeded change from its patch and confirm.log."""
import json, os, re, glob
V = '/verif'
for d in sorted(glob.glob(V + '/seeded/*')):
    name = os.path.basename(d)
    patch = open(d + '/patch.diff').read() if os.path.exists(d + '/patch.diff') else ''
    log = open(d + '/confirm.log').read() if os.path.exists(d + '/confirm.log') else ''
    files = re.findall(r'^\+\+\+ b/(\S+)', patch, re.M)
    caught = re.findall(r'failed obligation (\S+)', log)
    bind = 'bind.txt' in log
    standins = re.findall(r'replays/\S+/standin-([A-Za-z0-9_-]+)\.txt', log)
    meta = {
        'seed': name,
        'property': name[:3],
        'source': 'sub-agent given only the property text and a scratch worktree of /repo',
        'files_changed': files,
        'lines_added': len(re.findall(r'^\+[^+]', patch, re.M)),
        'lines_removed': len(re.findall(r'^-[^-]', patch, re.M)),
        'suite_passes_with_change': 'suite with patch: PASS' in log,
        'demo_fails_with_change': 'demo with patch: FAIL (expected)' in log,
        'demo_passes_without_change': 'demo without patch: PASS (expected)' in log,
        'check_exit_on_changed_tree': (re.findall(r'check \S+ on patched tree: exit (\d+)', log) or [None])[0],
        'caught_by': (caught[:3] if caught else (['contract no longer binds to the code (bind)'] if bind else [])) + ['bounded stand-in ' + x for x in dict.fromkeys(standins)],
        'demonstration': 'demo_test.go.txt',
        'notes': 'notes.md',
    }
    json.dump(meta, open(d + '/meta.json', 'w'), indent=1)
    print(name, meta['check_exit_on_changed_tree'], meta['caught_by'][:1])
