(declare-sort Str 0)
(declare-fun off (Int) Str)
(declare-fun Q (Int) Real)
(declare-fun w (Int Int) Int)   ; wildness of pair (offer,spec): 0,1,2 or 9=none ; abstracts the switch
(declare-const nOff Int)
(declare-const nSpec Int)
(declare-const dflt Str)
(assert (forall ((o Int) (s Int)) (! (or (= (w o s) 0) (= (w o s) 1) (= (w o s) 2) (= (w o s) 9)) :pattern ((w o s)))))
(assert (forall ((s Int)) (! (>= (Q s) 0.0) :pattern ((Q s)))))
; matched(o,s) : participates
(define-fun M ((o Int) (s Int)) Bool (and (not (= (Q s) 0.0)) (not (= (w o s) 9))))
(define-fun processed ((o Int) (s Int) (co Int) (cs Int)) Bool
  (and (<= 0 o) (<= 0 s) (< s nSpec) (or (< o co) (and (= o co) (< s cs)))))
; worse-or-later: pair (o,s) does not beat best (bQ,bW,bo)
(define-fun notbetter ((o Int) (s Int) (bQ Real) (bW Int) (bo Int)) Bool
  (or (< (Q s) bQ) (and (= (Q s) bQ) (> (w o s) bW)) (and (= (Q s) bQ) (= (w o s) bW) (<= bo o))))
(define-fun inv ((co Int) (cs Int) (bQ Real) (bW Int) (bO Str)) Bool
  (or (and (= bW 3) (= bQ (- 1.0)) (= bO dflt)
           (forall ((o Int) (s Int)) (! (=> (processed o s co cs) (not (M o s))) :pattern ((w o s)))))
      (exists ((bo Int) (bs Int))
         (and (processed bo bs co cs) (M bo bs) (= (w bo bs) bW) (= (Q bs) bQ) (= bO (off bo))
              (forall ((o Int) (s Int)) (! (=> (and (processed o s co cs) (M o s)) (notbetter o s bQ bW bo)) :pattern ((w o s))))))))
(declare-const co Int) (declare-const cs Int) (declare-const bQ Real) (declare-const bW Int) (declare-const bO Str)
(assert (and (<= 0 co) (< co nOff) (<= 0 cs) (< cs nSpec)))
(assert (inv co cs bQ bW bO))
; body: compute new state
(define-fun upd () Bool (and (not (= (Q cs) 0.0)) (not (< (Q cs) bQ)) (not (= (w co cs) 9)) (or (> (Q cs) bQ) (> bW (w co cs)))))
(define-fun bQ2 () Real (ite upd (Q cs) bQ))
(define-fun bW2 () Int (ite upd (w co cs) bW))
(define-fun bO2 () Str (ite upd (off co) bO))
(assert (not (inv co (+ cs 1) bQ2 bW2 bO2)))
(check-sat)
