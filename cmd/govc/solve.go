package main

import (
	"bytes"
	"context"
	"os"
	"os/exec"
	"strings"
	"sync"
	"time"
)

type solverDef struct {
	name string
	argv func(timeoutS int) []string
}

var solvers = []solverDef{
	// every solver process is capped at ~3 GB so that a diverging query cannot exhaust the machine
	{"z3-5.1.0", func(t int) []string { return []string{"z3-new", "-in", "-smt2", "-T:" + itoa(t), "-memory:3000"} }},
	{"z3-4.8.12", func(t int) []string {
		return []string{"/usr/bin/z3", "-in", "-smt2", "-T:" + itoa(t), "-memory:3000"}
	}},
	{"cvc5-1.0", func(t int) []string {
		return []string{"sh", "-c", "ulimit -v 3500000; exec cvc5 --lang=smt2 --tlimit=" + itoa(t*1000) + " --mbqi"}
	}},
	// the same z3 with other random seeds: quantifier instantiation order depends on the seed, and
	// an obligation one seed misses within the time limit another often proves at once
	{"z3-5.1.0/seed1", func(t int) []string {
		return []string{"z3-new", "-in", "-smt2", "-T:" + itoa(t), "-memory:3000", "smt.random_seed=1", "sat.random_seed=1"}
	}},
	{"z3-5.1.0/seed2", func(t int) []string {
		return []string{"z3-new", "-in", "-smt2", "-T:" + itoa(t), "-memory:3000", "smt.random_seed=2", "sat.random_seed=2"}
	}},
}

func itoa(n int) string {
	return strings.TrimSpace(strings.Replace(strings.Repeat(" ", 0)+fmtInt(n), " ", "", -1))
}

func fmtInt(n int) string {
	if n == 0 {
		return "0"
	}
	neg := n < 0
	if neg {
		n = -n
	}
	var b []byte
	for n > 0 {
		b = append([]byte{byte('0' + n%10)}, b...)
		n /= 10
	}
	if neg {
		b = append([]byte{'-'}, b...)
	}
	return string(b)
}

type solveResult struct {
	status string // unsat | sat | unknown
	solver string
	ms     int64
	output string
}

func runSolver(ctx context.Context, sd solverDef, query string, timeoutS int) solveResult {
	argv := sd.argv(timeoutS)
	cctx, cancel := context.WithTimeout(ctx, time.Duration(timeoutS+2)*time.Second)
	defer cancel()
	cmd := exec.CommandContext(cctx, argv[0], argv[1:]...)
	cmd.Stdin = strings.NewReader(query)
	var out bytes.Buffer
	cmd.Stdout = &out
	cmd.Stderr = &out
	start := time.Now()
	_ = cmd.Run()
	ms := time.Since(start).Milliseconds()
	text := out.String()
	st := "unknown"
	// the verdict is the first line that is exactly sat/unsat/unknown (warnings may precede it)
	for _, line := range strings.Split(text, "\n") {
		line = strings.TrimSpace(line)
		if line == "unsat" || line == "sat" {
			st = line
			break
		}
		if line == "unknown" || strings.HasPrefix(line, "(error") {
			break
		}
	}
	return solveResult{st, sd.name, ms, text}
}

// race runs the solvers on one query: z3 5.1 alone first (fast path), then all
// three in parallel. The first definite answer wins.
func race(query string, timeoutS int, wantModel bool) solveResult {
	fast := 3
	if timeoutS < fast {
		fast = timeoutS
	}
	r := runSolver(context.Background(), solvers[0], query, fast)
	if r.status != "unknown" {
		return r
	}
	ctx, cancel := context.WithCancel(context.Background())
	defer cancel()
	ch := make(chan solveResult, len(solvers))
	for _, sd := range solvers {
		sd := sd
		go func() { ch <- runSolver(ctx, sd, query, timeoutS) }()
	}
	var last solveResult
	var total int64
	for range solvers {
		x := <-ch
		total += x.ms
		if x.status != "unknown" {
			x.ms += r.ms
			return x
		}
		last = x
	}
	last.ms = r.ms + total
	last.solver = "all"
	return last
}

func (vc *FuncVC) query(o *Obl, prelude string) string {
	var b strings.Builder
	b.WriteString(prelude)
	for _, l := range vc.lines[:o.Pos] {
		b.WriteString(l)
		b.WriteByte('\n')
	}
	b.WriteString("; ---- obligation " + o.Name + " : " + strings.ReplaceAll(o.Desc, "\n", " ") + "\n")
	if o.Guard.S != "true" {
		b.WriteString("(assert " + o.Guard.S + ")\n")
	}
	if !o.Cover {
		b.WriteString("(assert (not " + o.Formula.S + "))\n")
	}
	b.WriteString("(check-sat)\n")
	return b.String()
}

// Discharge runs every obligation of the function.
func (vc *FuncVC) Discharge(timeoutS int, workers int, keepDir string) {
	prelude := vc.prelude()
	var wg sync.WaitGroup
	sem := make(chan struct{}, workers)
	for _, o := range vc.obls {
		o := o
		wg.Add(1)
		sem <- struct{}{}
		go func() {
			defer wg.Done()
			defer func() { <-sem }()
			q := vc.query(o, prelude)
			var r solveResult
			if o.Cover {
				// vacuity cover: only "unsat" matters; a short single-solver run suffices
				r = runSolver(context.Background(), solvers[0], q, 2)
			} else {
				r = race(q, timeoutS, false)
			}
			o.Solver, o.Ms = r.solver, r.ms
			if o.Cover {
				if r.status == "unsat" {
					o.Status = "vacuous"
				} else {
					o.Status = "covered"
				}
			} else {
				switch r.status {
				case "unsat":
					o.Status = "discharged"
				case "sat":
					o.Status = "failed"
					// second run for the model
					m := runSolver(context.Background(), solvers[0], q+"(get-model)\n", timeoutS)
					o.Model = m.output
				default:
					o.Status = "undecided"
				}
			}
			if keepDir != "" && (o.Status == "failed" || o.Status == "undecided" || o.Status == "vacuous") {
				_ = os.MkdirAll(keepDir, 0o755)
				fn := keepDir + "/" + fileSafe(o.Name) + ".smt2"
				_ = os.WriteFile(fn, []byte(q), 0o644)
				o.File = fn
			}
		}()
	}
	wg.Wait()
}

func fileSafe(s string) string {
	r := strings.NewReplacer("/", "_", "(", "", ")", "", "*", "", " ", "_", "#", "-", "$", "S", "~", "-")
	return r.Replace(s)
}
