package main

// Thorough tier only: after the property was decided on the working tree, the check is
// turned on itself. (1) Every stored seeded change of the property (/verif/seeded) is
// applied to a scratch copy and must be reported. (2) A sample of small syntactic mutants
// of the functions under contract is generated from the working tree, and for each the
// quick check is run on a scratch copy; the evidence records how many were reported and
// lists the survivors. Neither part changes the verdict on the working tree (a surviving
// mutant may be equivalent or outside the property); both say how sharp the contracts are.

import (
	"bytes"
	"context"
	"encoding/json"
	"fmt"
	"go/ast"
	"go/token"
	"math/rand"
	"os"
	"os/exec"
	"path/filepath"
	"sort"
	"strconv"
	"strings"
	"sync"
	"time"
)

type mutant struct {
	File   string // path relative to the repository root
	Start  int    // byte offsets in the file
	End    int
	New    string
	Desc   string
	Fn     string
	Status string
}

func selfTestEnabled(tier string) bool {
	return tier == "thorough" && os.Getenv("GOVC_CHILD") == "" && os.Getenv("VERIF_NO_SELFTEST") == ""
}

func runSelfTest(prop string, ps *PropSpec, repo string, seed int, p *Prog) map[string]interface{} {
	t0 := time.Now()
	vdir := verifDir()
	rep := map[string]interface{}{}
	root, err := os.MkdirTemp("", "govc-self")
	if err != nil {
		rep["error"] = err.Error()
		return rep
	}
	defer os.RemoveAll(root)
	const workers = 4
	var dirs []string
	for i := 0; i < workers; i++ {
		d := filepath.Join(root, fmt.Sprintf("w%d", i))
		if out, err := exec.Command("rsync", "-a", "--exclude", ".git", repo+"/", d+"/").CombinedOutput(); err != nil {
			rep["error"] = "rsync: " + string(out)
			return rep
		}
		dirs = append(dirs, d)
	}
	child := func(wdir string, allLabels bool) (int, string) {
		ctx, cancel := context.WithTimeout(context.Background(), 25*time.Minute)
		defer cancel()
		cmd := exec.CommandContext(ctx, filepath.Join(vdir, "bin", "govc"), "check", prop, "--tier", "quick")
		cmd.Dir = vdir
		cmd.Env = append(os.Environ(), "GOVC_CHILD=1", "VERIF_REPO="+wdir, "VERIF_OUT="+wdir+".out", "VERIF_TIER=quick")
		if allLabels {
			// mutants: does any clause of these functions' contracts (whatever property it is labelled for) notice?
			cmd.Env = append(cmd.Env, "GOVC_ALL_LABELS=1")
		}
		out, err := cmd.CombinedOutput()
		_ = os.RemoveAll(wdir + ".out")
		code := 0
		if ee, ok := err.(*exec.ExitError); ok {
			code = ee.ExitCode()
		} else if err != nil {
			code = -1
		}
		first := ""
		for _, l := range strings.Split(string(out), "\n") {
			if strings.Contains(l, "failed obligation") || strings.Contains(l, "bind.") {
				first = strings.TrimSpace(l)
				break
			}
		}
		return code, first
	}

	// ---- the unchanged scratch copy must pass under the same conditions (every clause of the functions'
	// contracts, the quick limits, the load of parallel runs): otherwise "reported" would mean nothing
	if code, first := child(dirs[0], true); code != 0 {
		rep["error"] = fmt.Sprintf("the unchanged scratch copy does not pass (exit %d: %s): self-test not run", code, first)
		return rep
	}

	// ---- stored seeded changes of this property
	type seedTask struct {
		name, patch string
	}
	var seeds []seedTask
	metas, _ := filepath.Glob(filepath.Join(vdir, "seeded", "*", "meta.json"))
	sort.Strings(metas)
	for _, m := range metas {
		var meta struct {
			Seed     string `json:"seed"`
			Property string `json:"property"`
		}
		data, _ := os.ReadFile(m)
		if json.Unmarshal(data, &meta) == nil && meta.Property == prop {
			seeds = append(seeds, seedTask{meta.Seed, filepath.Join(filepath.Dir(m), "patch.diff")})
		}
	}
	var seedReports []map[string]interface{}
	seedCaught := 0
	{
		var mu sync.Mutex
		var wg sync.WaitGroup
		ch := make(chan seedTask)
		for w := 0; w < workers; w++ {
			wdir := dirs[w]
			wg.Add(1)
			go func() {
				defer wg.Done()
				for st := range ch {
					r := map[string]interface{}{"seed": st.name}
					patch, _ := os.ReadFile(st.patch)
					ap := exec.Command("patch", "-p1", "-s")
					ap.Dir = wdir
					ap.Stdin = bytes.NewReader(patch)
					if out, err := ap.CombinedOutput(); err != nil {
						r["status"] = "patch does not apply: " + strings.TrimSpace(string(out))
					} else {
						code, first := child(wdir, false)
						r["check_exit"] = code
						r["first"] = first
						if code == 1 {
							r["status"] = "reported"
						} else {
							r["status"] = "NOT reported"
						}
						rv := exec.Command("patch", "-R", "-p1", "-s")
						rv.Dir = wdir
						rv.Stdin = bytes.NewReader(patch)
						_, _ = rv.CombinedOutput()
					}
					mu.Lock()
					if r["status"] == "reported" {
						seedCaught++
					}
					seedReports = append(seedReports, r)
					mu.Unlock()
				}
			}()
		}
		for _, st := range seeds {
			ch <- st
		}
		close(ch)
		wg.Wait()
	}
	sort.Slice(seedReports, func(i, j int) bool { return fmt.Sprint(seedReports[i]["seed"]) < fmt.Sprint(seedReports[j]["seed"]) })
	rep["seeded_changes"] = seedReports
	rep["seeded_reported"] = seedCaught
	rep["seeded_total"] = len(seeds)

	// ---- syntactic mutants of the functions under contract
	var cands []*mutant
	for _, short := range ps.Funcs {
		if strings.HasPrefix(short, "lemma:") {
			continue
		}
		cands = append(cands, mutantCandidates(p, short, repo)...)
	}
	r := rand.New(rand.NewSource(int64(seed) + 7))
	r.Shuffle(len(cands), func(i, j int) { cands[i], cands[j] = cands[j], cands[i] })
	limit := 24
	if v, err := strconv.Atoi(os.Getenv("VERIF_MUTANTS")); err == nil {
		limit = v
	}
	generated := len(cands)
	if len(cands) > limit {
		cands = cands[:limit]
	}
	{
		var wg sync.WaitGroup
		ch := make(chan *mutant)
		for w := 0; w < workers; w++ {
			wdir := dirs[w]
			wg.Add(1)
			go func() {
				defer wg.Done()
				for m := range ch {
					path := filepath.Join(wdir, m.File)
					orig, err := os.ReadFile(path)
					if err != nil {
						m.Status = "error: " + err.Error()
						continue
					}
					var mutated []byte
					if m.End < 0 {
						end := -m.End
						mutated = append(append(append(append(append([]byte{}, orig[:m.Start]...), []byte(m.New)...), orig[m.Start:end]...), ')'), orig[end:]...)
					} else {
						mutated = append(append(append([]byte{}, orig[:m.Start]...), []byte(m.New)...), orig[m.End:]...)
					}
					_ = os.WriteFile(path, mutated, 0o644)
					bc := exec.Command("go", "build", "./"+filepath.Dir(m.File))
					bc.Dir = wdir
					bc.Env = append(os.Environ(), "GOFLAGS=-mod=mod", "GOPROXY=off", "GOSUMDB=off", "GOTOOLCHAIN=local")
					if out, err := bc.CombinedOutput(); err != nil {
						m.Status = "does not compile"
						_ = out
					} else {
						code, first := child(wdir, true)
						switch code {
						case 1:
							m.Status = "reported: " + first
						case 0:
							m.Status = "survived"
						default:
							m.Status = fmt.Sprintf("check exit %d", code)
						}
					}
					_ = os.WriteFile(path, orig, 0o644)
				}
			}()
		}
		for _, m := range cands {
			ch <- m
		}
		close(ch)
		wg.Wait()
	}
	compiled, reported := 0, 0
	var survivors, all []string
	for _, m := range cands {
		all = append(all, m.Desc+" => "+m.Status)
		if m.Status == "does not compile" || strings.HasPrefix(m.Status, "error") {
			continue
		}
		compiled++
		if strings.HasPrefix(m.Status, "reported") {
			reported++
		} else {
			survivors = append(survivors, m.Desc+" => "+m.Status)
		}
	}
	rep["mutants_generated"] = generated
	rep["mutants_tried"] = len(cands)
	rep["mutants_compiled"] = compiled
	rep["mutants_reported"] = reported
	rep["mutant_survivors"] = survivors
	rep["mutants"] = all
	rep["mutants_note"] = "a mutant counts as reported when any clause of the contracts of the property's functions fails, including clauses labelled for another property (those are what that property's own check verifies)"
	rep["mutation_operators"] = "comparison and boolean/arithmetic operator swap, dropped negation, negated if-condition, dropped call statement, integer literal + 1; sampled with VERIF_SEED from the functions listed for the property"
	rep["wall_s"] = time.Since(t0).Seconds()
	return rep
}

// mutantCandidates lists the small syntactic mutants of one function under contract.
func mutantCandidates(p *Prog, short, repo string) []*mutant {
	var cands []*mutant
	{
		fn := p.Funcs[fullName(p, short)]
		if fn == nil || fn.Syntax() == nil {
			return nil
		}
		fset := fn.Prog.Fset
		node := fn.Syntax()
		file := fset.Position(node.Pos()).Filename
		rel, err := filepath.Rel(repo, file)
		if err != nil || strings.HasPrefix(rel, "..") {
			return nil
		}
		off := func(pos token.Pos) int { return fset.Position(pos).Offset }
		add := func(start, end int, text, desc string) {
			cands = append(cands, &mutant{File: rel, Start: start, End: end, New: text, Desc: fmt.Sprintf("%s:%d %s", rel, fset.Position(node.Pos()).Line, desc), Fn: short})
		}
		swap := map[token.Token]string{token.EQL: "!=", token.NEQ: "==", token.LSS: "<=", token.LEQ: "<", token.GTR: ">=", token.GEQ: ">", token.LAND: "||", token.LOR: "&&", token.ADD: "-", token.SUB: "+"}
		var body ast.Node
		switch n := node.(type) {
		case *ast.FuncDecl:
			body = n.Body
		case *ast.FuncLit:
			body = n.Body
		}
		if body == nil {
			return nil
		}
		depth := 0
		ast.Inspect(body, func(n ast.Node) bool {
			switch x := n.(type) {
			case *ast.FuncLit:
				// nested closures are functions of their own
				if depth > 0 || x != node {
					return false
				}
				depth++
			case *ast.BinaryExpr:
				if nw, ok := swap[x.Op]; ok {
					line := fset.Position(x.OpPos).Line
					add(off(x.OpPos), off(x.OpPos)+len(x.Op.String()), nw, fmt.Sprintf("line %d: %s -> %s", line, x.Op, nw))
				}
			case *ast.UnaryExpr:
				if x.Op == token.NOT {
					add(off(x.OpPos), off(x.OpPos)+1, "", fmt.Sprintf("line %d: drop !", fset.Position(x.OpPos).Line))
				}
			case *ast.IfStmt:
				if x.Cond != nil {
					add(off(x.Cond.Pos()), off(x.Cond.Pos()), "!(", fmt.Sprintf("line %d: negate the condition", fset.Position(x.Cond.Pos()).Line))
					cands[len(cands)-1].End = -off(x.Cond.End()) // marker: also insert ")" at the end
				}
			case *ast.ExprStmt:
				if _, ok := x.X.(*ast.CallExpr); ok {
					add(off(x.Pos()), off(x.End()), "", fmt.Sprintf("line %d: drop the call statement", fset.Position(x.Pos()).Line))
				}
			case *ast.BasicLit:
				if x.Kind == token.INT {
					if v, err := strconv.ParseInt(x.Value, 0, 64); err == nil && v >= 0 && v < 1000 {
						add(off(x.Pos()), off(x.End()), strconv.FormatInt(v+1, 10), fmt.Sprintf("line %d: %s -> %d", fset.Position(x.Pos()).Line, x.Value, v+1))
					}
				}
			}
			return true
		})
	}
	return cands
}
