package main

import (
	"context"
	"fmt"
	"go/types"
	"os"
	"os/exec"
	"path/filepath"
	"regexp"
	"strconv"
	"strings"
	"time"
)

// weaken drops quantified assertions from a query so that a solver that answers
// "unknown" on the full query can still propose a candidate state. A candidate
// is never trusted: it only counts when it replays on the real code.
func weaken(q string) string {
	var out []string
	for _, l := range strings.Split(q, "\n") {
		if strings.HasPrefix(l, "(assert") && strings.Contains(l, "(forall") {
			continue
		}
		out = append(out, l)
	}
	return strings.Join(out, "\n")
}

var valueRe = regexp.MustCompile(`\(\((.*)\)\)`)

func getValues(query string, terms []string, timeoutS int) (map[string]string, bool) {
	if len(terms) == 0 {
		return map[string]string{}, true
	}
	q := query + "(get-value (" + strings.Join(terms, " ") + "))\n"
	r := runSolver(context.Background(), solvers[0], q, timeoutS)
	if r.status != "sat" {
		return nil, false
	}
	vals := map[string]string{}
	body := r.output[strings.Index(r.output, "\n")+1:]
	// parse "((term value)\n (term value))"
	toks := sexprs(body)
	if len(toks) != 1 {
		return nil, false
	}
	for _, pair := range children(toks[0]) {
		kv := children(pair)
		if len(kv) == 2 {
			vals[kv[0]] = kv[1]
		}
	}
	return vals, true
}

// sexprs splits a string into top-level s-expressions.
func sexprs(s string) []string {
	var out []string
	depth := 0
	start := -1
	inBar := false
	for i := 0; i < len(s); i++ {
		c := s[i]
		if c == '|' {
			inBar = !inBar
			if depth == 0 && inBar {
				start = i
			} else if depth == 0 && !inBar {
				out = append(out, s[start:i+1])
				start = -1
			}
			continue
		}
		if inBar {
			continue
		}
		switch c {
		case '(':
			if depth == 0 {
				start = i
			}
			depth++
		case ')':
			depth--
			if depth == 0 {
				out = append(out, s[start:i+1])
				start = -1
			}
		case ' ', '\n', '\t', '\r':
			if depth == 0 && start >= 0 {
				out = append(out, s[start:i])
				start = -1
			}
		default:
			if depth == 0 && start < 0 {
				start = i
			}
		}
	}
	if start >= 0 && depth == 0 {
		out = append(out, s[start:])
	}
	return out
}

func children(s string) []string {
	s = strings.TrimSpace(s)
	if !strings.HasPrefix(s, "(") {
		return nil
	}
	return sexprs(s[1 : len(s)-1])
}

func smtInt(v string) (int64, bool) {
	v = strings.TrimSpace(v)
	if strings.HasPrefix(v, "(-") {
		n, err := strconv.ParseInt(strings.TrimSpace(strings.TrimSuffix(v[2:], ")")), 10, 64)
		return -n, err == nil
	}
	n, err := strconv.ParseInt(v, 10, 64)
	return n, err == nil
}

// findModel asks for a counterexample state of a failed obligation and renders
// the values of the function's parameters.
func findModel(vc *FuncVC, o *Obl, timeoutS int) (string, bool) {
	q := vc.query(o, vc.prelude())
	if timeoutS > 10 {
		timeoutS = 10
	}
	r := runSolver(context.Background(), solvers[0], q, timeoutS)
	weak := false
	if r.status != "sat" {
		q = weaken(q)
		r = runSolver(context.Background(), solvers[0], q, timeoutS)
		weak = true
		if r.status != "sat" {
			return "", false
		}
	}
	var b strings.Builder
	if weak {
		b.WriteString("(candidate from the query without quantified axioms; not trusted unless it replays)\n")
	}
	args, ok := paramValues(vc, q, timeoutS)
	if !ok {
		b.WriteString("(parameter values could not be extracted)\n")
		return b.String(), true
	}
	for i, p := range vc.Fn.Params {
		fmt.Fprintf(&b, "  %s = %s\n", p.Name(), args[i])
	}
	return b.String(), true
}

// paramValues renders the model values of the parameters as Go literals
// ("?" where the sort has no literal form).
func paramValues(vc *FuncVC, q string, timeoutS int) ([]string, bool) {
	var res []string
	for _, p := range vc.Fn.Params {
		pv, ok := vc.vals[p]
		if !ok || pv == nil {
			return nil, false
		}
		t := pv.T
		switch t.Sort {
		case SInt, SBool, SReal:
			vs, ok := getValues(q, []string{t.S}, timeoutS)
			if !ok {
				return nil, false
			}
			v := vs[t.S]
			if t.Sort == SInt {
				if n, ok := smtInt(v); ok {
					v = strconv.FormatInt(n, 10)
				}
				if _, isPtr := p.Type().Underlying().(*types.Pointer); isPtr {
					v = "?"
				}
			}
			res = append(res, v)
		case SStr:
			ln := "(len " + t.S + ")"
			vs, ok := getValues(q, []string{ln}, timeoutS)
			if !ok {
				return nil, false
			}
			n, ok := smtInt(vs[ln])
			if !ok || n < 0 || n > 4096 {
				res = append(res, "?")
				continue
			}
			var terms []string
			for i := int64(0); i < n; i++ {
				terms = append(terms, fmt.Sprintf("(at %s %d)", t.S, i))
			}
			bs, ok := getValues(q, terms, timeoutS)
			if !ok {
				return nil, false
			}
			buf := make([]byte, n)
			for i := int64(0); i < n; i++ {
				c, _ := smtInt(bs[terms[i]])
				buf[i] = byte(c)
			}
			res = append(res, strconv.Quote(string(buf)))
		default:
			res = append(res, "?")
		}
	}
	return res, true
}

// tryReplay runs the real function on the counterexample when every parameter
// has a literal form. Only run-time panics are recognised as reproduction here;
// a violated postcondition that does not panic is reported without replay.
func tryReplay(p *Prog, f failure, model, dir, repo string) (testPath, output string, reproduced bool) {
	vc := f.vc
	fn := vc.Fn
	if fn.Signature.Recv() != nil || fn.Parent() != nil || fn.Pkg == nil {
		return "", "", false
	}
	q := vc.query(f.obl, vc.prelude())
	r := runSolver(context.Background(), solvers[0], q, 5)
	if r.status != "sat" {
		q = weaken(q)
	}
	args, ok := paramValues(vc, q, 5)
	if !ok {
		return "", "", false
	}
	for _, a := range args {
		if a == "?" {
			return "", "", false
		}
	}
	pkgDir := strings.TrimPrefix(fn.Pkg.Pkg.Path(), p.ModPath)
	pkgDir = strings.TrimPrefix(pkgDir, "/")
	src := fmt.Sprintf(`package %s

import "testing"

// Replay of the verifier's counterexample for %s on the real function.
func TestGovcReplay(t *testing.T) {
	defer func() {
		if r := recover(); r != nil {
			t.Fatalf("REPRODUCED: %s(%s) panics: %%v", r)
		}
	}()
	%s(%s)
}
`, fn.Pkg.Pkg.Name(), f.obl.Name, fn.Name(), strings.ReplaceAll(strings.Join(args, ", "), `"`, `\"`), fn.Name(), strings.Join(args, ", "))
	testPath = filepath.Join(dir, fileSafe(f.obl.Name)+"_replay_test.go")
	if err := os.WriteFile(testPath, []byte(src), 0o644); err != nil {
		return "", "", false
	}
	ov := filepath.Join(dir, "overlay.json")
	target := filepath.Join(repo, pkgDir, "zz_govc_replay_test.go")
	_ = os.WriteFile(ov, []byte(fmt.Sprintf(`{"Replace": {%q: %q}}`, target, testPath)), 0o644)
	ctx, cancel := context.WithTimeout(context.Background(), 120*time.Second)
	defer cancel()
	cmd := exec.CommandContext(ctx, "go", "test", "-overlay", ov, "-vet=off", "-timeout", "60s", "-count=1", "-run", "TestGovcReplay", "./"+pkgDir)
	cmd.Dir = repo
	cmd.Env = append(os.Environ(), "GOFLAGS=-mod=mod", "GOPROXY=off", "GOSUMDB=off", "GOTOOLCHAIN=local")
	out, _ := cmd.CombinedOutput()
	output = string(out)
	return testPath, output, strings.Contains(output, "REPRODUCED")
}
