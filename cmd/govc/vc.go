package main

import (
	"fmt"
	"go/token"
	"go/types"
	"sort"
	"strings"

	"golang.org/x/tools/go/ssa"
)

// Val is the symbolic value of an SSA register.
type Val struct {
	T     Term
	Tuple []*Val
	Loc   *Loc // pointer to a non-struct location with statically known component
	Typ   types.Type
	Clo   *ssa.MakeClosure
}

// Loc is a statically resolved memory location.
type Loc struct {
	Comp string
	Ref  Term
	Idx  *Term
	Typ  types.Type
}

// Obl is one proof obligation: under the assumptions lines[:Pos] and Guard, Formula holds.
type Obl struct {
	Name    string
	Kind    string
	Pos     int
	Guard   Term
	Formula Term
	Desc    string
	Cover   bool // vacuity cover: expected SAT
	Status  string
	Solver  string
	Ms      int64
	Model   string
	Fn      string
	File    string
}

type loopInfo struct {
	header  *ssa.BasicBlock
	blocks  map[*ssa.BasicBlock]bool
	ordinal int
	modset  map[string]bool
	havoc   bool
	parent  *loopInfo
	logLabels []string
}

type FuncVC struct {
	P    *Prog
	Fn   *ssa.Function
	C    *Contract
	Name string

	lines       []string
	obls        []*Obl
	vals        map[ssa.Value]*Val
	reach       map[*ssa.BasicBlock]Term
	exit        map[*ssa.BasicBlock]*State
	edgeCond    map[*ssa.BasicBlock][]Term
	cur         *State
	curBlock    *ssa.BasicBlock
	entryState  *State
	comps       map[string]string
	compRepo    map[string]bool
	entryComps  map[string]Term
	structs     map[string]*structInfo
	structOrder []string
	preDecls    []string
	preDeclsEmitted int
	strlits     map[string]Term
	strEqDone   map[string]bool
	quantDepth  int
	seq         int
	stateSeq    int
	declared    map[string]bool
	loops       map[*ssa.BasicBlock]*loopInfo
	loopOf      map[*ssa.BasicBlock]*loopInfo
	nonNil      map[ssa.Value]bool
	localAlloc  map[*ssa.Alloc]bool
	debugRefs   map[string][]*ssa.DebugRef
	typeIDs     map[string]int
	concreteTypes map[int]types.Type
	ifaceTypes  map[int]types.Type
	boxDecl     map[string]bool
	funcDecl    map[string]bool
	retCount    int
	oblSeq      map[string]int
	defers      []*deferRec
	watches     []*Watch
	iterOf      map[ssa.Value]*iterInfo
	bv          bool
	iterNames   map[ssa.Value]iterNames
	logicUsed   map[string]bool
	logTypes    map[string]types.Type
	axiomDone   map[*Clause]bool
	axiomText   []string
	assigned    map[string][]*Loc
	skolems     map[string][][]Term
	skolemFns   map[string][]skolemFn
	pendingSk   []string // Skolem terms introduced under the universal being evaluated
	undefVars   map[string]Term // locals referenced by a goal before they exist
	midStates   map[string]*State // intermediate heaps of callees named by before()/after() in their contracts
	neverState  *State // unconstrained heap standing for call sites not executed yet
	watchHit    map[string]bool // labels that matched at least one call site
	callPre     map[string][]*State // label -> heap before each execution site of a watched call
	callGuard   map[string][]Term   // label -> reachability of each execution site
	callBlock   map[string][]*ssa.BasicBlock // label -> block of each execution site
	callInstr   map[string][]ssa.Instruction // label -> the call instruction of each executed site (same order)
	nameLimit   ssa.Instruction              // see debugValue: resolve names as of this instruction
	siteCache   map[string][]ssa.Instruction // label -> matching call instructions in source order
	callPost    map[string][]*State // label -> heap after it (effects applied)
	goalSkolemised bool // the last goal evaluation replaced a universal by fresh constants
	funCache    map[string]string
	stable      []*Loc
	stableDone  bool
	cloWrites   []string
	cloTotal    bool
	cloWritesDone bool
	curInstr    ssa.Instruction
	freshVals   map[ssa.Value]bool
	cellConst   map[*ssa.FreeVar]Term
	closureOf   map[string]*ssa.Function
	closureMC   map[string]*ssa.MakeClosure
	lemmasUsed  map[string]bool
	escapes     map[ssa.Value][]ssa.Instruction
	breach      map[*ssa.BasicBlock]map[*ssa.BasicBlock]bool
	assignsOpaque bool

	// statistics for the evidence file
	nInstr      int
	nAbstract   int
	abstracted  map[string]int
	assumedUsed map[string]bool
	contractUse map[string]bool
	notes       []string
	errs        []string
}

type deferRec struct {
	instr *ssa.Defer
	guard Term
}

type iterInfo struct {
	comp    string
	mapVal  *Val
	mapType *types.Map
	domAt   Term
	valAt   Term
	id      int
	isStr   bool
}

func NewFuncVC(p *Prog, fn *ssa.Function, c *Contract) *FuncVC {
	vc := &FuncVC{P: p, Fn: fn, C: c, Name: fn.String(),
		vals: map[ssa.Value]*Val{}, reach: map[*ssa.BasicBlock]Term{}, exit: map[*ssa.BasicBlock]*State{},
		edgeCond: map[*ssa.BasicBlock][]Term{}, comps: map[string]string{}, compRepo: map[string]bool{},
		entryComps: map[string]Term{}, structs: map[string]*structInfo{}, strlits: map[string]Term{},
		strEqDone: map[string]bool{}, declared: map[string]bool{}, loops: map[*ssa.BasicBlock]*loopInfo{},
		loopOf: map[*ssa.BasicBlock]*loopInfo{}, nonNil: map[ssa.Value]bool{}, localAlloc: map[*ssa.Alloc]bool{},
		debugRefs: map[string][]*ssa.DebugRef{}, typeIDs: map[string]int{}, concreteTypes: map[int]types.Type{}, ifaceTypes: map[int]types.Type{}, boxDecl: map[string]bool{},
		funcDecl: map[string]bool{}, oblSeq: map[string]int{}, abstracted: map[string]int{},
		assumedUsed: map[string]bool{}, contractUse: map[string]bool{}, iterOf: map[ssa.Value]*iterInfo{}, logicUsed: map[string]bool{}, logTypes: map[string]types.Type{}, axiomDone: map[*Clause]bool{}, skolems: map[string][][]Term{}, skolemFns: map[string][]skolemFn{}, callPre: map[string][]*State{}, callGuard: map[string][]Term{}, callBlock: map[string][]*ssa.BasicBlock{}, callInstr: map[string][]ssa.Instruction{}, watchHit: map[string]bool{}, callPost: map[string][]*State{}, funCache: map[string]string{}, escapes: map[ssa.Value][]ssa.Instruction{}, cellConst: map[*ssa.FreeVar]Term{}, freshVals: map[ssa.Value]bool{}, closureOf: map[string]*ssa.Function{}, closureMC: map[string]*ssa.MakeClosure{}, lemmasUsed: map[string]bool{}}
	if c != nil {
		vc.watches = c.Watches
		vc.bv = c.Mode == "bv"
	}
	return vc
}

func (vc *FuncVC) note(format string, args ...interface{}) {
	s := fmt.Sprintf(format, args...)
	for _, n := range vc.notes {
		if n == s {
			return
		}
	}
	vc.notes = append(vc.notes, s)
}

func (vc *FuncVC) abstract(what string) {
	vc.nAbstract++
	vc.abstracted[what]++
}

func (vc *FuncVC) emit(line string) { vc.lines = append(vc.lines, line) }

func (vc *FuncVC) assume(t Term) {
	if t.S == "true" {
		return
	}
	vc.emit("(assert " + t.S + ")")
}

// declare introduces a fresh constant.
func (vc *FuncVC) declare(name, sort string) Term {
	n := sym(name)
	for vc.declared[n] {
		vc.seq++
		n = sym(fmt.Sprintf("%s~%d", name, vc.seq))
	}
	vc.declared[n] = true
	vc.emit(fmt.Sprintf("(declare-const %s %s)", n, sort))
	return T(n, sort)
}

// declareGlobal declares a constant visible to every obligation of the function.
func (vc *FuncVC) declareGlobal(name, sort string) Term {
	n := sym(name)
	for vc.declared[n] {
		vc.seq++
		n = sym(fmt.Sprintf("%s~%d", name, vc.seq))
	}
	vc.declared[n] = true
	vc.preDecls = append(vc.preDecls, fmt.Sprintf("(declare-const %s %s)", n, sort))
	return T(n, sort)
}

func (vc *FuncVC) fresh(prefix, sort string) Term {
	vc.seq++
	return vc.declare(fmt.Sprintf("%s!%d", prefix, vc.seq), sort)
}

// named returns an atom for t: t itself when it already is one, else a fresh constant
// defined equal to it (keeps quantifier patterns free of ite/store terms).
func (vc *FuncVC) named(prefix string, t Term) Term {
	if !strings.ContainsAny(t.S, " (") || (strings.HasPrefix(t.S, "|") && strings.Count(t.S, "|") == 2) {
		return t
	}
	c := vc.fresh(prefix, t.Sort)
	vc.assume(Eq(c, t))
	return c
}

// declFun declares an uninterpreted function once (in the prelude).
func (vc *FuncVC) declFun(name string, args []string, res string) string {
	n := sym(name)
	if !vc.funcDecl[n] {
		vc.funcDecl[n] = true
		vc.preDecls = append(vc.preDecls, fmt.Sprintf("(declare-fun %s (%s) %s)", n, strings.Join(args, " "), res))
	}
	return n
}

func (vc *FuncVC) comp(name, sort string, repo bool) string {
	if s, ok := vc.comps[name]; ok {
		if s != sort {
			panic(fmt.Sprintf("component %s: sort %s vs %s", name, s, sort))
		}
		return name
	}
	vc.comps[name] = sort
	vc.compRepo[name] = repo
	return name
}

// oblige records a proof obligation and then assumes it (assert-then-assume).
func (vc *FuncVC) oblige(kind, name string, guard, formula Term, desc string) {
	vc.obligeWith(kind, name, guard, formula, formula, desc)
}

// obligeWith records an obligation whose assumed form (after the proof) differs
// from its goal form (universals proved for fresh constants).
func (vc *FuncVC) obligeWith(kind, name string, guard, formula, hyp Term, desc string) {
	if formula.S == "true" {
		return
	}
	vc.oblSeq[name]++
	if n := vc.oblSeq[name]; n > 1 {
		name = fmt.Sprintf("%s~%d", name, n)
	}
	o := &Obl{Name: vc.P.shortName(vc.Name) + "#" + name, Kind: kind, Pos: len(vc.lines), Guard: guard, Formula: formula, Desc: desc, Fn: vc.Name}
	vc.obls = append(vc.obls, o)
	vc.assume(Implies(guard, hyp))
}

func (vc *FuncVC) cover(name string, guard Term) {
	o := &Obl{Name: vc.P.shortName(vc.Name) + "#" + name, Kind: "cover", Pos: len(vc.lines), Guard: guard, Formula: tFalse, Cover: true, Fn: vc.Name}
	vc.obls = append(vc.obls, o)
}

// ---------- control-flow analysis ----------

func isBackEdge(p, h *ssa.BasicBlock) bool { return h.Dominates(p) }

func (vc *FuncVC) analyzeLoops() {
	fn := vc.Fn
	var headers []*ssa.BasicBlock
	for _, b := range fn.Blocks {
		for _, p := range b.Preds {
			if isBackEdge(p, b) {
				if vc.loops[b] == nil {
					vc.loops[b] = &loopInfo{header: b, blocks: map[*ssa.BasicBlock]bool{b: true}, modset: map[string]bool{}}
					headers = append(headers, b)
				}
				// natural loop of back edge p->b
				li := vc.loops[b]
				stack := []*ssa.BasicBlock{p}
				for len(stack) > 0 {
					x := stack[len(stack)-1]
					stack = stack[:len(stack)-1]
					if li.blocks[x] {
						continue
					}
					li.blocks[x] = true
					stack = append(stack, x.Preds...)
				}
			}
		}
	}
	// ordinal: by source position of the first positioned instruction of the header, then block index
	sort.Slice(headers, func(i, j int) bool {
		pi, pj := vc.blockPos(headers[i]), vc.blockPos(headers[j])
		if pi != pj && pi != token.NoPos && pj != token.NoPos {
			return pi < pj
		}
		return headers[i].Index < headers[j].Index
	})
	for i, h := range headers {
		vc.loops[h].ordinal = i
	}
	// innermost loop of each block; parent links
	for _, b := range fn.Blocks {
		var best *loopInfo
		for _, li := range vc.loops {
			if li.blocks[b] && (best == nil || len(li.blocks) < len(best.blocks)) {
				best = li
			}
		}
		vc.loopOf[b] = best
	}
	for _, li := range vc.loops {
		var best *loopInfo
		for _, lj := range vc.loops {
			if lj != li && lj.blocks[li.header] && (best == nil || len(lj.blocks) < len(best.blocks)) {
				best = lj
			}
		}
		li.parent = best
	}
}

// blockPos: position of the loop statement that created the header (its first
// instruction with a position, searching the loop's blocks).
func (vc *FuncVC) blockPos(h *ssa.BasicBlock) token.Pos {
	best := token.NoPos
	li := vc.loops[h]
	for b := range li.blocks {
		for _, in := range b.Instrs {
			if _, ok := in.(*ssa.DebugRef); ok {
				continue
			}
			if p := in.Pos(); p != token.NoPos && (best == token.NoPos || p < best) {
				best = p
			}
		}
	}
	return best
}

func (vc *FuncVC) topoOrder() []*ssa.BasicBlock {
	seen := map[*ssa.BasicBlock]bool{}
	var post []*ssa.BasicBlock
	var dfs func(b *ssa.BasicBlock)
	dfs = func(b *ssa.BasicBlock) {
		seen[b] = true
		for _, s := range b.Succs {
			if isBackEdge(b, s) || seen[s] {
				continue
			}
			dfs(s)
		}
		post = append(post, b)
	}
	dfs(vc.Fn.Blocks[0])
	for i, j := 0, len(post)-1; i < j; i, j = i+1, j-1 {
		post[i], post[j] = post[j], post[i]
	}
	return post
}

// ---------- driver ----------

func (vc *FuncVC) Run() (err error) {
	defer func() {
		if r := recover(); r != nil {
			err = fmt.Errorf("govc: %s: %v", vc.Name, r)
			if os := fmt.Sprint(r); strings.Contains(os, "runtime error") {
				panic(r)
			}
		}
	}()
	fn := vc.Fn
	if len(fn.Blocks) == 0 {
		return fmt.Errorf("%s has no body", vc.Name)
	}
	vc.comp("alloc", arraySort(SInt, SBool), false)
	vc.comp("escaped", arraySort(SInt, SBool), false)
	vc.comp("clock", SInt, false)
	vc.entryState = vc.newState(stEntry, nil)
	vc.cur = vc.entryState
	// everything that exists when the function is entered is (potentially) known to other code
	{
		a0, e0 := vc.entryState.get("alloc"), vc.entryState.get("escaped")
		vc.assume(T(fmt.Sprintf("(forall ((r Int)) (! (=> (select %s r) (select %s r)) :pattern ((select %s r))))", a0.S, e0.S, e0.S), SBool))
	}
	vc.scanAllocs()
	for _, p := range fn.Params {
		t := vc.declare("p!"+p.Name(), vc.sortOf(p.Type()))
		vc.assume(vc.typeInv(t, p.Type()))
		vc.vals[p] = &Val{T: t, Typ: p.Type()}
		vc.assumeAllocated(t, p.Type())
	}
	for _, fv := range fn.FreeVars {
		t := vc.declare("fv!"+fv.Name(), SInt)
		vc.assume(Cmp("<", IntLit(0), t))
		vc.vals[fv] = &Val{T: t, Typ: fv.Type()}
		vc.nonNil[fv] = true
		vc.assume(Select(vc.entryState.get("alloc"), vc.baseOf(t), SBool))
	}
	// different captured variables live in different cells (zero-size variables aside)
	{
		bySort := map[string][]Term{}
		for _, fv := range fn.FreeVars {
			elem := fv.Type().Underlying().(*types.Pointer).Elem()
			if st, ok := elem.Underlying().(*types.Struct); ok && st.NumFields() == 0 {
				continue
			}
			k := "struct"
			if !isStruct(elem) {
				k = vc.sortOf(elem)
			}
			bySort[k] = append(bySort[k], vc.vals[fv].T)
		}
		for _, k := range sortedKeys(bySort) {
			if ts := bySort[k]; len(ts) > 1 {
				vc.assume(T(app("distinct", ts...), SBool))
			}
		}
	}
	for _, b := range fn.Blocks {
		for _, in := range b.Instrs {
			if d, ok := in.(*ssa.DebugRef); ok {
				if id := d.Object(); id != nil {
					vc.debugRefs[id.Name()] = append(vc.debugRefs[id.Name()], d)
				}
			}
		}
	}
	vc.analyzeLoops()
	vc.prescanLoops()
	vc.initLogs()
	if vc.C != nil {
		env := vc.newEnv(vc.entryState, vc.entryState)
		for _, r := range vc.C.Requires {
			vc.assume(vc.evalBool(env, r))
		}
		for _, r := range vc.C.Assumes {
			vc.assume(vc.evalBool(env, r))
			vc.note("assumed at entry (invariant established elsewhere, not asked of callers): %s", truncate(r.Src, 120))
		}
		// lemmas this contract relies on: proved separately (check.go), assumed here
		for _, name := range vc.C.Uses {
			found := false
			for _, l := range vc.P.CS.Lemmas {
				if l.Name == name {
					lenv := vc.newEnv(vc.entryState, vc.entryState)
					lenv.callee = true
					lenv.calleeCon = &Contract{Pkg: l.Pkg}
					vc.assume(vc.evalBool(lenv, l.Clause))
					vc.lemmasUsed[name] = true
					found = true
				}
			}
			if !found {
				panic(fmt.Errorf("uses: lemma %s not found", name))
			}
		}
	}
	vc.cover("cover.pre", tTrue)
	for _, b := range vc.topoOrder() {
		vc.execBlock(b)
	}
	// a watch that matches no call of the function makes every clause about it vacuous
	for _, w := range vc.watches {
		if pk, _ := splitWord(w.Pattern); pk == "closure" {
			if vc.closureOf[w.Label] == nil {
				return fmt.Errorf("watch %s = %s matches no closure of the function", w.Label, w.Pattern)
			}
			continue
		}
		if !vc.watchHit[w.Label] && !(vc.C != nil && vc.C.MayAbsent[w.Label]) {
			return fmt.Errorf("watch %s = %s matches no call of the function", w.Label, w.Pattern)
		}
	}
	return nil
}

func (vc *FuncVC) assumeAllocated(t Term, typ types.Type) {
	switch typ.Underlying().(type) {
	case *types.Pointer, *types.Map:
		vc.assume(Or(Eq(t, IntLit(0)), vc.isAlloc(vc.cur, t)))
	case *types.Slice:
		arr := T(app("s_arr", t), SInt)
		vc.assume(Or(Eq(arr, IntLit(0)), And(vc.isAlloc(vc.cur, arr), Eq(vc.baseOf(arr), arr))))
	}
}

func (vc *FuncVC) succIndex(p, b *ssa.BasicBlock) []int {
	var idx []int
	for i, s := range p.Succs {
		if s == b {
			idx = append(idx, i)
		}
	}
	return idx
}

func (vc *FuncVC) edgeTerm(p, b *ssa.BasicBlock) Term {
	var ts []Term
	for _, i := range vc.succIndex(p, b) {
		ts = append(ts, vc.edgeCond[p][i])
	}
	return Or(ts...)
}

func (vc *FuncVC) execBlock(b *ssa.BasicBlock) {
	vc.curBlock = b
	li := vc.loops[b]
	var entryEdges []predEdge
	var entries []entryEdge
	for i, p := range b.Preds {
		if isBackEdge(p, b) {
			continue
		}
		if _, done := vc.exit[p]; !done {
			continue // unreachable predecessor
		}
		c := vc.edgeTerm(p, b)
		entries = append(entries, entryEdge{p, i, c})
		entryEdges = append(entryEdges, predEdge{c, vc.exit[p]})
	}
	if b.Index == 0 {
		vc.reach[b] = tTrue
		vc.cur = vc.entryState
	} else {
		if len(entries) == 0 {
			// unreachable block (e.g. recover block)
			vc.reach[b] = tFalse
			vc.cur = vc.newState(stJoin, nil)
			vc.exit[b] = vc.cur
			vc.edgeCond[b] = make([]Term, len(b.Succs))
			for i := range b.Succs {
				vc.edgeCond[b][i] = tFalse
			}
			// still give values to instructions so later lookups do not fail
			for _, in := range b.Instrs {
				if v, ok := in.(ssa.Value); ok {
					vc.vals[v] = vc.freshVal("dead", v.Type())
				}
			}
			return
		}
		var conds []Term
		for _, e := range entries {
			conds = append(conds, e.cond)
		}
		r := vc.declare(fmt.Sprintf("R!%d", b.Index), SBool)
		vc.assume(Eq(r, Or(conds...)))
		vc.reach[b] = r
		switch {
		case li != nil:
			st := vc.newState(stLoop, nil)
			st.preds = entryEdges
			st.modset = li.modset
			st.havocAll = li.havoc
			st.loop = li
			vc.cur = st
		case len(entries) == 1:
			vc.cur = vc.exit[entries[0].p]
		default:
			st := vc.newState(stJoin, nil)
			st.preds = entryEdges
			vc.cur = st
		}
	}
	// phis
	var phis []*ssa.Phi
	for _, in := range b.Instrs {
		if ph, ok := in.(*ssa.Phi); ok {
			phis = append(phis, ph)
		} else {
			break
		}
	}
	if li != nil {
		// invariant on entry edges
		invs := vc.loopInvs(li)
		for _, e := range entries {
			env := vc.newEnv(vc.exit[e.p], vc.entryState)
			env.loop = li
			env.phiEdge = e.i
			for _, inv := range invs {
				g, h := inv.goalHyp(vc, env)
				vc.obligeWith("inv.entry", fmt.Sprintf("inv.loop%d.%s.entry", li.ordinal, inv.name), e.cond, g, h, inv.src)
			}
		}
		for _, ph := range phis {
			t := vc.declare("v!"+ph.Name(), vc.sortOf(ph.Type()))
			vc.assume(vc.typeInv(t, ph.Type()))
			vc.vals[ph] = &Val{T: t, Typ: ph.Type()}
			// memory-model invariant: every reference held in a variable is nil or allocated
			vc.assumeAllocated(t, ph.Type())
			vc.nInstr++
		}
		env := vc.newEnv(vc.cur, vc.entryState)
		env.loop = li
		env.phiEdge = -1
		for _, inv := range invs {
			vc.assume(Implies(vc.reach[b], inv.f(env)))
		}
		if vc.C == nil || vc.C.Loops[li.ordinal] == nil {
			vc.note("loop %d has no invariant: loop-carried values are unconstrained at its head", li.ordinal)
		}
	} else {
		for _, ph := range phis {
			vc.nInstr++
			var res *Val
			// build ite chain over entry edges
			for k := len(entries) - 1; k >= 0; k-- {
				e := entries[k]
				ov := vc.val(ph.Edges[e.i])
				if res == nil {
					res = ov
				} else {
					res = vc.iteVal(e.cond, ov, res)
				}
			}
			if res == nil {
				res = vc.freshVal("phi", ph.Type())
			}
			vc.defineVal(ph, res)
		}
	}
	for _, in := range b.Instrs[len(phis):] {
		vc.exec(in)
	}
	vc.exit[b] = vc.cur
}

type entryEdge struct {
	p    *ssa.BasicBlock
	i    int
	cond Term
}

func clauseName(c *Clause, n int) string {
	if c.Name != "" {
		return c.Name
	}
	return fmt.Sprint(n)
}

type invFn struct {
	name string
	src  string
	f    func(env *Env) Term // as an assumption
	g    func(env *Env) Term // as a goal (nil: same as f)
}

// goalHyp returns the invariant as a goal and in the form assumed after the proof.
func (i invFn) goalHyp(vc *FuncVC, env *Env) (Term, Term) {
	vc.goalSkolemised = false
	g := i.goal(env)
	if !vc.goalSkolemised {
		return g, g
	}
	return g, i.f(env)
}

func (i invFn) goal(env *Env) Term {
	if i.g != nil {
		return i.g(env)
	}
	return i.f(env)
}

// loopInvs: the contract's invariants for the loop plus automatically generated
// ones (checked like any other): the hidden index of a range-over-slice loop
// stays within [-1, len).
func (vc *FuncVC) loopInvs(li *loopInfo) []invFn {
	var out []invFn
	if vc.C != nil && vc.C.Loops[li.ordinal] != nil {
		for n, c := range vc.C.Loops[li.ordinal].Invariants {
			c := c
			out = append(out, invFn{clauseName(c, n), c.Src, func(env *Env) Term { return vc.evalBool(env, c) }, func(env *Env) Term { return vc.evalGoal(env, c) }})
		}
	}
	if li.modset["escaped"] || li.havoc {
		out = append(out, invFn{"auto.escaped", "objects that existed at entry stay published", func(env *Env) Term {
			a0, e := vc.entryState.get("alloc"), env.st.get("escaped")
			if e.S == vc.entryState.get("escaped").S {
				return tTrue
			}
			e = vc.named("esc", e)
			return T(fmt.Sprintf("(forall ((r Int)) (! (=> (select %s r) (select %s r)) :pattern ((select %s r))))", a0.S, e.S, e.S), SBool)
		}, nil})
	}
	if li.modset["alloc"] || li.havoc {
		// relative to the state in which the loop is entered (single entry edge)
		var entryPreds []*ssa.BasicBlock
		for _, p := range li.header.Preds {
			if !isBackEdge(p, li.header) {
				entryPreds = append(entryPreds, p)
			}
		}
		if len(entryPreds) == 1 {
			if pst := vc.exit[entryPreds[0]]; pst != nil {
				apre := vc.named("alcpre", pst.get("alloc"))
				out = append(out, invFn{"auto.allocpre", "allocation only grows (since loop entry)", func(env *Env) Term {
					a := env.st.get("alloc")
					if a.S == apre.S {
						return tTrue
					}
					a = vc.named("alc", a)
					return T(fmt.Sprintf("(forall ((r Int)) (! (=> (select %s r) (select %s r)) :pattern ((select %s r))))", apre.S, a.S, a.S), SBool)
				}, nil})
			}
		}
		out = append(out, invFn{"auto.alloc", "allocation only grows", func(env *Env) Term {
			a0, a := vc.entryState.get("alloc"), env.st.get("alloc")
			if a0.S == a.S {
				return tTrue
			}
			a = vc.named("alc", a)
			return T(fmt.Sprintf("(forall ((r Int)) (! (=> (select %s r) (select %s r)) :pattern ((select %s r))))", a0.S, a.S, a.S), SBool)
		}, nil})
	}
	// range over a map: the ranged map keeps the key set (and values) it had when the
	// iteration started — checked like any invariant, so a body that updates it fails here
	var nexts []*ssa.Next
	for l := li; l != nil; l = l.parent {
		// (an inner loop must keep the maps ranged over by the loops around it, too)
		for _, in := range l.header.Instrs {
			if nx, ok := in.(*ssa.Next); ok {
				nexts = append(nexts, nx)
			}
		}
	}
	for _, nx := range nexts {
		it := vc.iterOf[nx.Iter]
		if it == nil || it.isStr {
			continue
		}
		rg := nx.Iter.(*ssa.Range)
		if li.havoc {
			// opaque calls in the body: whether they reach the ranged map is not decidable
			// here; the iteration keeps its snapshot semantics (assumption, reported)
			vc.note("loop %d ranges over a map and contains opaque calls: the map is assumed not to be modified by them during the iteration", li.ordinal)
			continue
		}
		out = append(out, invFn{"auto.maprange." + rg.Name(), "the ranged map is not modified by the loop", func(env *Env) Term {
			dc, vn := vc.mapComps(it.mapType)
			ks, vs := vc.sortOf(it.mapType.Key()), vc.sortOf(it.mapType.Elem())
			m := vc.term(rg.X)
			return And(Eq(Select(env.st.get(dc), m, arraySort(ks, SBool)), it.domAt), Eq(Select(env.st.get(vn), m, arraySort(ks, vs)), it.valAt))
		}, nil})
	}
	// call logs with the default tag: the n-th call is logged under n, so the logged
	// indices are exactly [0, calls)
	seenLabel := map[string]bool{}
	for _, lab := range li.logLabels {
		if seenLabel[lab] {
			continue
		}
		seenLabel[lab] = true
		var w *Watch
		for _, x := range vc.watches {
			if x.Label == lab {
				w = x
			}
		}
		if w == nil || w.Tag != nil {
			continue
		}
		lab := lab
		out = append(out, invFn{"auto.log." + lab, "called(" + lab + ",n) <==> 0 <= n < calls(" + lab + ")", func(env *Env) Term {
			cnt := env.st.get(vc.logComp("", lab, "cnt", ""))
			called := env.st.get(vc.logComp("", lab, "called", SBool))
			return T(fmt.Sprintf("(and (>= %s 0) (forall ((n Int)) (! (= (select %s n) (and (<= 0 n) (< n %s))) :pattern ((select %s n)))))", cnt.S, called.S, cnt.S, called.S), SBool)
		}, nil})
	}
	if vc.C != nil && len(vc.C.Stable) > 0 && li.havoc {
		// what the contract assumes stable across opaque calls is also stable across the loop
		for _, d := range vc.C.Stable {
			d := d
			if strings.HasPrefix(d, "now:") {
				continue
			}
			out = append(out, invFn{"auto.stable." + d, "stable: " + d + " as at entry", func(env *Env) Term {
				return vc.stableFormula(d, env.st)
			}, nil})
		}
	}
	if vc.C != nil && vc.C.HasAssgn {
		for _, comp := range sortedKeys(li.modset) {
			comp := comp
			if !vc.frameRelevant(comp) {
				continue
			}
			out = append(out, invFn{"auto.frame." + comp, "frame: " + comp + " unchanged on objects allocated at entry (outside the assigns clause)", func(env *Env) Term {
				return vc.frameFormula(comp, env.st)
			}, nil})
		}
	}
	for _, in := range li.header.Instrs {
		ph, ok := in.(*ssa.Phi)
		if !ok {
			break
		}
		if ph.Comment != "rangeindex" {
			continue
		}
		var lenV ssa.Value
		for _, in2 := range li.header.Instrs {
			if cmp, ok := in2.(*ssa.BinOp); ok && cmp.Op == token.LSS {
				if add, ok := cmp.X.(*ssa.BinOp); ok && add.Op == token.ADD && add.X == ph {
					lenV = cmp.Y
				}
			}
		}
		if lenV == nil {
			continue
		}
		out = append(out, invFn{"auto.rangeindex", "-1 <= rangeindex && (rangeindex < len || rangeindex == -1)", func(env *Env) Term {
			var p Term
			if env.phiEdge >= 0 {
				p = vc.term(ph.Edges[env.phiEdge])
			} else {
				p = vc.term(ph)
			}
			n := vc.term(lenV)
			return And(Cmp("<=", IntLit(-1), p), Or(Cmp("<", p, n), Eq(p, IntLit(-1))))
		}, nil})
	}
	return out
}
