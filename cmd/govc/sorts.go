package main

import (
	"fmt"
	"go/types"
	"math/big"
	"strings"
)

// structInfo describes the SMT datatype generated for a Go struct type.
type structInfo struct {
	Sort   string
	Name   string // readable name
	Fields []structField
	Repo   bool
	Typ    *types.Struct
}

type structField struct {
	Name string
	Type types.Type
	Sort string
}

// typeName gives a stable readable name for a type used in sort/component names.
func (vc *FuncVC) typeName(t types.Type) string {
	s := types.TypeString(t, func(p *types.Package) string {
		if p.Path() == vc.P.ModPath {
			return "runtime"
		}
		return strings.TrimPrefix(p.Path(), vc.P.ModPath+"/")
	})
	return sanitize(s)
}

func (vc *FuncVC) structOf(t types.Type) *structInfo {
	st, ok := t.Underlying().(*types.Struct)
	if !ok {
		panic("not a struct: " + t.String())
	}
	key := vc.typeName(t)
	if _, named := t.(*types.Named); !named {
		if a, ok := t.(*types.Alias); ok {
			return vc.structOf(types.Unalias(a))
		}
		key = "anon:" + sanitize(st.String())
	}
	if si, ok := vc.structs[key]; ok {
		return si
	}
	si := &structInfo{Sort: "|S!" + key + "|", Name: key, Typ: st}
	if n, ok := t.(*types.Named); ok {
		si.Repo = vc.P.inRepoPkg(n.Obj().Pkg())
	}
	vc.structs[key] = si // before recursion (recursive pointer types are fine: pointers are Int)
	for i := 0; i < st.NumFields(); i++ {
		f := st.Field(i)
		si.Fields = append(si.Fields, structField{Name: f.Name(), Type: f.Type(), Sort: vc.sortOf(f.Type())})
	}
	vc.structOrder = append(vc.structOrder, key)
	return si
}

// sortOf maps a Go type to an SMT sort name (DESIGN Appendix B.2).
func (vc *FuncVC) sortOf(t types.Type) string {
	switch u := t.Underlying().(type) {
	case *types.Basic:
		switch {
		case u.Info()&types.IsBoolean != 0:
			return SBool
		case u.Info()&types.IsInteger != 0:
			return SInt
		case u.Info()&types.IsFloat != 0:
			return SReal
		case u.Info()&types.IsString != 0:
			return SStr
		case u.Kind() == types.UnsafePointer, u.Kind() == types.UntypedNil:
			return SInt
		}
		return SInt
	case *types.Pointer, *types.Map, *types.Chan, *types.Signature:
		return SInt
	case *types.Slice:
		return SSlice
	case *types.Interface:
		return SIface
	case *types.Struct:
		return vc.structOf(t).Sort
	case *types.Array:
		return SInt // arrays by value are handled as references to an immutable copy (abstracted)
	case *types.Tuple:
		return "Tuple"
	case *types.TypeParam:
		return SIface
	}
	return SInt
}

// zero returns the zero value of a sort.
func (vc *FuncVC) zero(t types.Type) Term {
	sort := vc.sortOf(t)
	switch sort {
	case SInt:
		return IntLit(0)
	case SBool:
		return tFalse
	case SReal:
		return T("0.0", SReal)
	case SStr:
		return vc.strLit("")
	case SSlice:
		return T("nil_slice", SSlice)
	case SIface:
		return T("nil_iface", SIface)
	}
	if st, ok := t.Underlying().(*types.Struct); ok {
		si := vc.structOf(t)
		if len(si.Fields) == 0 {
			return T("mk"+si.Sort[1:len(si.Sort)-1], si.Sort).quoteMk()
		}
		var args []Term
		for i := 0; i < st.NumFields(); i++ {
			args = append(args, vc.zero(st.Field(i).Type()))
		}
		return vc.mkStruct(si, args)
	}
	return IntLit(0)
}

func (t Term) quoteMk() Term { return Term{"|" + t.S + "|", t.Sort} }

func (si *structInfo) ctor() string { return "|mk" + si.Sort[1:len(si.Sort)-1] + "|" }
func (si *structInfo) sel(i int) string {
	return "|" + si.Sort[1:len(si.Sort)-1] + "." + si.Fields[i].Name + "|"
}

func (vc *FuncVC) mkStruct(si *structInfo, args []Term) Term {
	if len(args) == 0 {
		return T(si.ctor(), si.Sort)
	}
	return T(app(si.ctor(), args...), si.Sort)
}

func (vc *FuncVC) structField(si *structInfo, v Term, i int) Term {
	return T(app(si.sel(i), v), si.Fields[i].Sort)
}

// intRange returns the inclusive range of an integer type, ok=false for non-integers.
func intRange(t types.Type) (lo, hi *big.Int, ok bool) {
	b, isb := t.Underlying().(*types.Basic)
	if !isb || b.Info()&types.IsInteger == 0 {
		return nil, nil, false
	}
	bits := 64
	switch b.Kind() {
	case types.Int8, types.Uint8:
		bits = 8
	case types.Int16, types.Uint16:
		bits = 16
	case types.Int32, types.Uint32:
		bits = 32
	}
	one := big.NewInt(1)
	if b.Info()&types.IsUnsigned != 0 {
		hi = new(big.Int).Sub(new(big.Int).Lsh(one, uint(bits)), one)
		return big.NewInt(0), hi, true
	}
	hi = new(big.Int).Sub(new(big.Int).Lsh(one, uint(bits-1)), one)
	lo = new(big.Int).Neg(new(big.Int).Lsh(one, uint(bits-1)))
	return lo, hi, true
}

// typeInv is the invariant every value of Go type t satisfies.
func (vc *FuncVC) typeInv(v Term, t types.Type) Term {
	if lo, hi, ok := intRange(t); ok {
		return And(Cmp("<=", BigLit(lo), v), Cmp("<=", v, BigLit(hi)))
	}
	switch t.Underlying().(type) {
	case *types.Slice:
		off := T(app("s_off", v), SInt)
		ln := T(app("s_len", v), SInt)
		cp := T(app("s_cap", v), SInt)
		arr := T(app("s_arr", v), SInt)
		return And(Cmp("<=", IntLit(0), off), Cmp("<=", IntLit(0), ln), Cmp("<=", ln, cp),
			Cmp("<=", cp, T("72057594037927936", SInt)),
			Implies(Eq(arr, IntLit(0)), And(Eq(cp, IntLit(0)), Eq(off, IntLit(0)))),
			Cmp("<=", IntLit(0), arr))
	case *types.Pointer, *types.Map, *types.Chan, *types.Signature:
		return Cmp("<=", IntLit(0), v)
	case *types.Struct:
		si := vc.structOf(t)
		var cs []Term
		for i, f := range si.Fields {
			switch f.Type.Underlying().(type) {
			case *types.Basic, *types.Slice:
				cs = append(cs, vc.typeInv(vc.structField(si, v, i), f.Type))
			}
		}
		return And(cs...)
	}
	return tTrue
}

// prelude emits sort declarations, theory axioms and string literal facts.
func (vc *FuncVC) prelude() string {
	var b strings.Builder
	b.WriteString("(set-option :produce-models true)\n(set-logic ALL)\n")
	b.WriteString(`(declare-sort Str 0)
(declare-sort Iface 0)
(declare-fun len (Str) Int)
(declare-fun at (Str Int) Int)
(declare-fun sub (Str Int Int) Str)
(declare-fun cat (Str Str) Str)
(declare-const nil_iface Iface)
(declare-fun tagOf (Iface) Int)
(declare-datatypes ((Slice 0)) (((mk_slice (s_arr Int) (s_off Int) (s_len Int) (s_cap Int)))))
(define-fun nil_slice () Slice (mk_slice 0 0 0 0))
(assert (forall ((s Str)) (! (and (>= (len s) 0) (<= (len s) 72057594037927936)) :pattern ((len s)))))
(assert (forall ((s Str) (i Int)) (! (and (<= 0 (at s i)) (< (at s i) 256)) :pattern ((at s i)))))
(assert (forall ((s Str) (a Int) (b Int)) (! (=> (and (<= 0 a) (<= a b) (<= b (len s))) (= (len (sub s a b)) (- b a))) :pattern ((sub s a b)))))
(assert (forall ((s Str) (a Int) (b Int) (k Int)) (! (=> (and (<= 0 a) (<= a b) (<= b (len s)) (<= 0 k) (< k (- b a))) (= (at (sub s a b) k) (at s (+ a k)))) :pattern ((at (sub s a b) k)))))
(assert (forall ((s Str) (a Int) (b Int) (c Int) (d Int)) (! (=> (and (<= 0 a) (<= a b) (<= b (len s)) (<= 0 c) (<= c d) (<= d (- b a))) (= (sub (sub s a b) c d) (sub s (+ a c) (+ a d)))) :pattern ((sub (sub s a b) c d)))))
(assert (forall ((s Str) (b Int)) (! (=> (= b (len s)) (= (sub s 0 b) s)) :pattern ((sub s 0 b)))))
(assert (forall ((x Str) (y Str)) (! (= (len (cat x y)) (+ (len x) (len y))) :pattern ((cat x y)))))
(assert (forall ((x Str) (y Str) (k Int)) (! (= (at (cat x y) k) (ite (< k (len x)) (at x k) (at y (- k (len x))))) :pattern ((at (cat x y) k)))))
`)
	// struct datatypes in dependency order
	for _, key := range vc.structOrder {
		si := vc.structs[key]
		if len(si.Fields) == 0 {
			fmt.Fprintf(&b, "(declare-datatypes ((%s 0)) (((%s))))\n", si.Sort, si.ctor())
			continue
		}
		fmt.Fprintf(&b, "(declare-datatypes ((%s 0)) (((%s", si.Sort, si.ctor())
		for i, f := range si.Fields {
			fmt.Fprintf(&b, " (%s %s)", si.sel(i), f.Sort)
		}
		b.WriteString("))))\n")
	}
	// axioms of the logic functions that were used (label = logic function name)
	for changed := true; changed; {
		changed = false
		for _, ax := range vc.P.CS.Axioms {
			if vc.axiomDone[ax] || !vc.logicUsed[ax.Name] {
				continue
			}
			vc.axiomDone[ax] = true
			changed = true
			env := vc.newEnv(vc.entryState, vc.entryState)
			env.callee = true
			t := vc.evalBool(env, ax)
			vc.axiomText = append(vc.axiomText, "(assert "+t.S+") ; axiom "+ax.Src)
		}
	}
	for _, d := range vc.preDecls {
		b.WriteString(d)
		b.WriteByte('\n')
	}
	vc.preDeclsEmitted = len(vc.preDecls)
	for _, d := range vc.axiomText {
		b.WriteString(d)
		b.WriteByte('\n')
	}
	facts := vc.implementsFacts()
	// (implementsFacts may declare `implements`: emit declarations added meanwhile)
	for _, d := range vc.preDecls[min(len(vc.preDecls), vc.preDeclsEmitted):] {
		b.WriteString(d)
		b.WriteByte('\n')
	}
	for _, d := range facts {
		b.WriteString(d)
		b.WriteByte('\n')
	}
	return b.String()
}

// strLit returns the constant for a string literal, declaring it with its
// length and byte facts on first use.
func (vc *FuncVC) strLit(s string) Term {
	if t, ok := vc.strlits[s]; ok {
		return t
	}
	name := fmt.Sprintf("|str!%d|", len(vc.strlits))
	t := T(name, SStr)
	vc.strlits[s] = t
	vc.preDecls = append(vc.preDecls, fmt.Sprintf("(declare-const %s Str) ; %q", name, truncate(s, 60)))
	vc.preDecls = append(vc.preDecls, fmt.Sprintf("(assert (= (len %s) %d))", name, len(s)))
	n := len(s)
	if n > 96 {
		n = 96
	}
	for i := 0; i < n; i++ {
		vc.preDecls = append(vc.preDecls, fmt.Sprintf("(assert (= (at %s %d) %d))", name, i, s[i]))
	}
	return t
}

// strEqLit links term equality with a short literal to content equality.
func (vc *FuncVC) strEqLit(x Term, lit string) Term {
	eq := Eq(x, vc.strLit(lit))
	if len(lit) <= 24 {
		cs := []Term{Eq(T(app("len", x), SInt), IntLit(int64(len(lit))))}
		for i := 0; i < len(lit); i++ {
			cs = append(cs, Eq(T(fmt.Sprintf("(at %s %d)", x.S, i), SInt), IntLit(int64(lit[i]))))
		}
		if vc.quantDepth > 0 {
			// inside a quantifier no global fact about x can be emitted: use content equality
			return And(cs...)
		}
		key := x.S + "==" + lit
		if !vc.strEqDone[key] {
			vc.strEqDone[key] = true
			vc.assume(Eq(eq, And(cs...)))
		}
	}
	return eq
}

func truncate(s string, n int) string {
	if len(s) > n {
		return s[:n] + "…"
	}
	return s
}
