package main

import (
	"os"
	"fmt"
	"sort"
	"go/constant"
	"go/token"
	"go/types"
	"math/big"
	"strings"

	"golang.org/x/tools/go/ssa"
)

// ---------- values ----------

func (vc *FuncVC) freshVal(prefix string, t types.Type) *Val {
	if tup, ok := t.(*types.Tuple); ok {
		v := &Val{Typ: t}
		for i := 0; i < tup.Len(); i++ {
			v.Tuple = append(v.Tuple, vc.freshVal(prefix, tup.At(i).Type()))
		}
		return v
	}
	x := vc.fresh(prefix, vc.sortOf(t))
	vc.assume(vc.typeInv(x, t))
	return &Val{T: x, Typ: t}
}

func (vc *FuncVC) iteVal(c Term, a, b *Val) *Val {
	if a.Tuple != nil {
		r := &Val{Typ: a.Typ}
		for i := range a.Tuple {
			r.Tuple = append(r.Tuple, vc.iteVal(c, a.Tuple[i], b.Tuple[i]))
		}
		return r
	}
	return &Val{T: Ite(c, vc.termOf(a), vc.termOf(b)), Typ: a.Typ}
}

// termOf gives the term of a value, turning a static location into an opaque address.
func (vc *FuncVC) termOf(v *Val) Term {
	if v.Loc != nil && v.T.S == "" {
		// the address of a field/element escapes as a first-class pointer: opaque address
		f := vc.declFun("addr!"+v.Loc.Comp, []string{SInt, SInt}, SInt)
		idx := IntLit(-1)
		if v.Loc.Idx != nil {
			idx = *v.Loc.Idx
		}
		return T(app(f, v.Loc.Ref, idx), SInt)
	}
	return v.T
}

// defineVal binds an SSA value to a named constant equal to the given value.
func (vc *FuncVC) defineVal(v ssa.Value, x *Val) {
	if x.Tuple != nil || x.Loc != nil {
		x.Typ = v.Type()
		vc.vals[v] = x
		return
	}
	s := x.T.S
	if len(s) < 24 && !strings.Contains(s, " ") {
		// atoms are used directly
		vc.vals[v] = &Val{T: x.T, Typ: v.Type(), Clo: x.Clo}
		return
	}
	c := vc.declare("v!"+v.Name(), x.T.Sort)
	vc.assume(Eq(c, x.T))
	vc.vals[v] = &Val{T: c, Typ: v.Type(), Clo: x.Clo}
}

func (vc *FuncVC) val(v ssa.Value) *Val {
	if x, ok := vc.vals[v]; ok {
		return x
	}
	switch c := v.(type) {
	case *ssa.Const:
		return vc.constVal(c)
	case *ssa.Global:
		return vc.globalAddr(c)
	case *ssa.Function:
		f := vc.declFun("fn!"+c.String(), nil, SInt)
		t := T(f, SInt)
		vc.onceAssume("fnnz:"+f, Cmp("<", IntLit(0), t))
		return &Val{T: t, Typ: v.Type()}
	case *ssa.Builtin:
		return &Val{T: IntLit(0), Typ: v.Type()}
	}
	// value defined in a block not yet executed (only possible for unreachable code)
	x := vc.freshVal("undef", v.Type())
	vc.vals[v] = x
	return x
}

func (vc *FuncVC) onceAssume(key string, t Term) {
	if vc.strEqDone["once:"+key] {
		return
	}
	vc.strEqDone["once:"+key] = true
	vc.preDecls = append(vc.preDecls, "(assert "+t.S+")")
}

func (vc *FuncVC) term(v ssa.Value) Term { return vc.termOf(vc.val(v)) }

func (vc *FuncVC) constVal(c *ssa.Const) *Val {
	t := c.Type()
	if c.Value == nil {
		return &Val{T: vc.zero(t), Typ: t}
	}
	switch c.Value.Kind() {
	case constant.Bool:
		if constant.BoolVal(c.Value) {
			return &Val{T: tTrue, Typ: t}
		}
		return &Val{T: tFalse, Typ: t}
	case constant.String:
		return &Val{T: vc.strLit(constant.StringVal(c.Value)), Typ: t}
	case constant.Int:
		if vc.sortOf(t) == SReal {
			return &Val{T: T(bigOf(c.Value).String()+".0", SReal), Typ: t}
		}
		return &Val{T: BigLit(bigOf(c.Value)), Typ: t}
	case constant.Float:
		if vc.sortOf(t) == SInt {
			return &Val{T: BigLit(bigOf(constant.ToInt(c.Value))), Typ: t}
		}
		r := constant.ToFloat(c.Value)
		num, den := constant.Num(r), constant.Denom(r)
		if num.Kind() == constant.Int && den.Kind() == constant.Int {
			n, d := bigOf(num), bigOf(den)
			s := fmt.Sprintf("(/ %s.0 %s.0)", new(big.Int).Abs(n).String(), d.String())
			if n.Sign() < 0 {
				s = "(- " + s + ")"
			}
			return &Val{T: T(s, SReal), Typ: t}
		}
	}
	vc.abstract("const:" + c.String())
	return vc.freshVal("const", t)
}

func bigOf(v constant.Value) *big.Int {
	if i, ok := constant.Int64Val(v); ok {
		return big.NewInt(i)
	}
	n, _ := new(big.Int).SetString(v.ExactString(), 10)
	if n == nil {
		n = new(big.Int)
	}
	return n
}

// globalAddr: the address of a package-level variable.
func (vc *FuncVC) globalAddr(g *ssa.Global) *Val {
	elem := g.Type().(*types.Pointer).Elem()
	name := g.Pkg.Pkg.Path() + "." + g.Name()
	repo := vc.P.inRepoPkg(g.Pkg.Pkg)
	switch elem.Underlying().(type) {
	case *types.Struct, *types.Array:
		f := vc.declFun("gaddr!"+name, nil, SInt)
		t := T(f, SInt)
		vc.onceAssume("g:"+f, Cmp("<", IntLit(0), t))
		v := &Val{T: t, Typ: g.Type()}
		return v
	}
	comp := vc.comp("G!"+name, vc.sortOf(elem), repo)
	return &Val{Loc: &Loc{Comp: comp, Typ: elem}, Typ: g.Type()}
}

// ---------- allocation sites ----------

// scanAllocs decides which Allocs are non-escaping locals: every use is a
// FieldAddr/IndexAddr chain ending in loads and stores *to* the location.
func (vc *FuncVC) scanAllocs() {
	for _, b := range vc.Fn.Blocks {
		for _, in := range b.Instrs {
			if a, ok := in.(*ssa.Alloc); ok {
				if !vc.addrEscapes(a, map[ssa.Value]bool{}) {
					vc.localAlloc[a] = true
				} else if elem := a.Type().Underlying().(*types.Pointer).Elem(); !isStruct(elem) && capturedOnly(a) && cellImmutableIn(a, vc.Fn) {
					// a variable captured by closures that only read it, initialised before
					// the first capture: nobody else can write it
					vc.localAlloc[a] = true
				}
			}
		}
	}
}

func (vc *FuncVC) addrEscapes(v ssa.Value, seen map[ssa.Value]bool) bool {
	if seen[v] {
		return false
	}
	seen[v] = true
	refs := v.Referrers()
	if refs == nil {
		return true
	}
	for _, r := range *refs {
		switch u := r.(type) {
		case *ssa.DebugRef:
		case *ssa.FieldAddr:
			if vc.addrEscapes(u, seen) {
				return true
			}
		case *ssa.IndexAddr:
			if u.X != v || vc.addrEscapes(u, seen) {
				return true
			}
		case *ssa.UnOp:
			if u.Op != token.MUL {
				return true
			}
		case *ssa.Store:
			if u.Val == v {
				return true
			}
		default:
			return true
		}
	}
	return false
}

// rootFreeVar: the captured variable an address is derived from, if any.
func rootFreeVar(v ssa.Value) *ssa.FreeVar {
	for {
		switch x := v.(type) {
		case *ssa.FieldAddr:
			v = x.X
		case *ssa.IndexAddr:
			v = x.X
		case *ssa.FreeVar:
			return x
		default:
			return nil
		}
	}
}

// assignsNames: the function's assigns clause names the captured variable.
func (vc *FuncVC) assignsNames(name string) bool {
	for _, d := range vc.C.Assigns {
		if d == name || d == "\\everything" {
			return true
		}
	}
	return false
}

// localSuffix returns "#L<alloc>" when the address is derived from a non-escaping local.
func (vc *FuncVC) localSuffix(v ssa.Value) string {
	for {
		switch x := v.(type) {
		case *ssa.FieldAddr:
			v = x.X
		case *ssa.IndexAddr:
			v = x.X
		case *ssa.Alloc:
			if vc.localAlloc[x] {
				return "#L" + x.Name()
			}
			return ""
		default:
			return ""
		}
	}
}

// ---------- component naming (shared by prescan and execution) ----------

func (vc *FuncVC) fieldComp(si *structInfo, i int, suffix string) string {
	return vc.comp("F!"+si.Name+"!"+si.Fields[i].Name+suffix, arraySort(SInt, si.Fields[i].Sort), si.Repo)
}

func (vc *FuncVC) elemComp(elem types.Type) string {
	s := vc.sortOf(elem)
	return vc.comp("E!"+s, arraySort(SInt, arraySort(SInt, s)), false)
}

func (vc *FuncVC) cellComp(elem types.Type, suffix string) string {
	s := vc.sortOf(elem)
	return vc.comp("C!"+s+suffix, arraySort(SInt, s), false)
}

func (vc *FuncVC) mapComps(m *types.Map) (dom, val string) {
	k, v := vc.sortOf(m.Key()), vc.sortOf(m.Elem())
	dom = vc.comp("MD!"+k+"!"+v, arraySort(SInt, arraySort(k, SBool)), false)
	val = vc.comp("MV!"+k+"!"+v, arraySort(SInt, arraySort(k, v)), false)
	return
}

func isStruct(t types.Type) bool { _, ok := t.Underlying().(*types.Struct); return ok }

// leafComps lists the field components of a struct type, recursively through
// struct-valued fields.
func (vc *FuncVC) leafComps(t types.Type, suffix string) []string {
	si := vc.structOf(t)
	var out []string
	for i, f := range si.Fields {
		if isStruct(f.Type) {
			out = append(out, vc.leafComps(f.Type, suffix)...)
		} else {
			out = append(out, vc.fieldComp(si, i, suffix))
		}
	}
	return out
}

// storeComps lists the components a store through addr may write.
func (vc *FuncVC) storeComps(addr ssa.Value) []string {
	elem := addr.Type().Underlying().(*types.Pointer).Elem()
	suffix := vc.localSuffix(addr)
	if isStruct(elem) {
		return vc.leafComps(elem, suffix)
	}
	switch a := addr.(type) {
	case *ssa.FieldAddr:
		st := a.X.Type().Underlying().(*types.Pointer).Elem()
		si := vc.structOf(st)
		return []string{vc.fieldComp(si, a.Field, suffix)}
	case *ssa.IndexAddr:
		return []string{vc.elemComp(elem)}
	case *ssa.Global:
		v := vc.globalAddr(a)
		if v.Loc != nil {
			return []string{v.Loc.Comp}
		}
	}
	return []string{vc.cellComp(elem, suffix)}
}

// ---------- memory access ----------

// baseOf maps the address of an embedded struct or of a struct element to the
// allocation unit that contains it (identity on allocation units).
func (vc *FuncVC) baseOf(ref Term) Term {
	f := vc.declFun("baseOf", []string{SInt}, SInt)
	return T(app(f, ref), SInt)
}

func (vc *FuncVC) isAlloc(st *State, ref Term) Term {
	return Select(st.get("alloc"), vc.baseOf(ref), SBool)
}

func (vc *FuncVC) fldRef(si *structInfo, i int, ref Term) Term {
	name := "fld!" + si.Name + "!" + si.Fields[i].Name
	f := vc.declFun(name, []string{SInt}, SInt)
	b := vc.declFun("baseOf", []string{SInt}, SInt)
	vc.onceAssume(name, T(fmt.Sprintf("(forall ((r Int)) (! (and (= (%s (%s r)) (%s r)) (> (%s r) 0)) :pattern ((%s r))))", b, f, b, f, f), SBool))
	return T(app(f, ref), SInt)
}

func (vc *FuncVC) elemRef(arr, idx Term) Term {
	f := vc.declFun("elemref", []string{SInt, SInt}, SInt)
	b := vc.declFun("baseOf", []string{SInt}, SInt)
	vc.onceAssume("elemref.base", T(fmt.Sprintf("(forall ((a Int) (j Int)) (! (and (= (%s (%s a j)) (%s a)) (> (%s a j) 0)) :pattern ((%s a j))))", b, f, b, f, f), SBool))
	// different elements are different objects: the element address determines array and index
	ei := vc.declFun("elemidx", []string{SInt}, SInt)
	ea := vc.declFun("elemarr", []string{SInt}, SInt)
	vc.onceAssume("elemref.inj", T(fmt.Sprintf("(forall ((a Int) (j Int)) (! (and (= (%s (%s a j)) j) (= (%s (%s a j)) a)) :pattern ((%s a j))))", ei, f, ea, f, f), SBool))
	return T(app(f, arr, idx), SInt)
}

// loadStruct assembles the value of the struct object at ref.
func (vc *FuncVC) loadStruct(st *State, t types.Type, ref Term, suffix string) Term {
	si := vc.structOf(t)
	var args []Term
	for i, f := range si.Fields {
		if isStruct(f.Type) {
			args = append(args, vc.loadStruct(st, f.Type, vc.fldRef(si, i, ref), suffix))
		} else {
			args = append(args, Select(st.get(vc.fieldComp(si, i, suffix)), ref, f.Sort))
		}
	}
	return vc.mkStruct(si, args)
}

func (vc *FuncVC) storeStruct(st *State, t types.Type, ref Term, v Term, suffix string) *State {
	si := vc.structOf(t)
	for i, f := range si.Fields {
		fv := vc.structField(si, v, i)
		if isStruct(f.Type) {
			st = vc.storeStruct(st, f.Type, vc.fldRef(si, i, ref), fv, suffix)
		} else {
			c := vc.fieldComp(si, i, suffix)
			st = st.set(c, Store(st.get(c), ref, fv))
		}
	}
	return st
}

func (vc *FuncVC) loadLoc(st *State, l *Loc) Term {
	sort := vc.sortOf(l.Typ)
	h := st.get(l.Comp)
	if strings.HasPrefix(l.Comp, "G!") {
		return h
	}
	if l.Idx != nil {
		return Select(Select(h, l.Ref, arraySort(SInt, sort)), *l.Idx, sort)
	}
	return Select(h, l.Ref, sort)
}

func (vc *FuncVC) storeLoc(st *State, l *Loc, v Term) *State {
	h := st.get(l.Comp)
	if strings.HasPrefix(l.Comp, "G!") {
		return st.set(l.Comp, v)
	}
	if l.Idx != nil {
		sort := vc.sortOf(l.Typ)
		inner := Select(h, l.Ref, arraySort(SInt, sort))
		return st.set(l.Comp, Store(h, l.Ref, Store(inner, *l.Idx, v)))
	}
	return st.set(l.Comp, Store(h, l.Ref, v))
}

// load reads *p in state st.
func (vc *FuncVC) load(st *State, p ssa.Value) Term {
	if fv, ok := p.(*ssa.FreeVar); ok {
		if t, ok := vc.immutableCell(fv); ok {
			return t
		}
	}
	pv := vc.val(p)
	elem := p.Type().Underlying().(*types.Pointer).Elem()
	suffix := vc.localSuffix(p)
	if isStruct(elem) {
		return vc.loadStruct(st, elem, pv.T, suffix)
	}
	if pv.Loc != nil {
		return vc.loadLoc(st, pv.Loc)
	}
	return Select(st.get(vc.cellComp(elem, suffix)), pv.T, vc.sortOf(elem))
}

func (vc *FuncVC) store(st *State, p ssa.Value, v Term) *State {
	pv := vc.val(p)
	elem := p.Type().Underlying().(*types.Pointer).Elem()
	suffix := vc.localSuffix(p)
	if isStruct(elem) {
		return vc.storeStruct(st, elem, pv.T, v, suffix)
	}
	if pv.Loc != nil {
		return vc.storeLoc(st, pv.Loc, v)
	}
	c := vc.cellComp(elem, suffix)
	return st.set(c, Store(st.get(c), pv.T, v))
}

// guard of the current block
func (vc *FuncVC) g() Term { return vc.reach[vc.curBlock] }

func (vc *FuncVC) checkNonNil(v ssa.Value, what string) {
	if vc.nonNil[v] {
		return
	}
	pv := vc.val(v)
	if pv.Loc != nil {
		return
	}
	switch v.(type) {
	case *ssa.Alloc, *ssa.FieldAddr, *ssa.IndexAddr, *ssa.Global:
		return
	}
	vc.oblige("safe.nil", "safe.nil."+what, vc.g(), Not(Eq(pv.T, IntLit(0))), "nil dereference of "+v.Name()+" ("+what+")")
	vc.nonNil[v] = true
}

// ---------- instruction semantics ----------

func (vc *FuncVC) exec(in ssa.Instruction) {
	if _, ok := in.(*ssa.DebugRef); ok {
		return
	}
	vc.nInstr++
	vc.curInstr = in
	switch x := in.(type) {
	case *ssa.Alloc:
		vc.execAlloc(x)
	case *ssa.FieldAddr:
		vc.execFieldAddr(x)
	case *ssa.IndexAddr:
		vc.execIndexAddr(x)
	case *ssa.Field:
		si := vc.structOf(x.X.Type())
		vc.defineVal(x, &Val{T: vc.structField(si, vc.term(x.X), x.Field)})
	case *ssa.Index:
		vc.execIndex(x)
	case *ssa.UnOp:
		vc.execUnOp(x)
	case *ssa.BinOp:
		vc.execBinOp(x)
	case *ssa.Store:
		vc.checkNonNil(x.Addr, "store")
		if fv := rootFreeVar(x.Addr); fv != nil && vc.C != nil && vc.C.HasAssgn && !vc.assignsNames(fv.Name()) {
			// a closure under an assigns clause writes a variable it shares with its creator (and
			// with every other invocation of itself) without naming it
			vc.oblige("frame", "frame.captured."+fv.Name(), vc.g(), tFalse, "store to the captured variable "+fv.Name()+", which the assigns clause does not name")
		}
		vc.cur = vc.store(vc.cur, x.Addr, vc.term(x.Val))
		if vc.localSuffix(x.Addr) == "" {
			vc.publish(vc.term(x.Val), x.Val.Type())
		}
	case *ssa.Convert:
		vc.execConvert(x)
	case *ssa.ChangeType:
		vc.defineVal(x, &Val{T: vc.term(x.X), Clo: vc.val(x.X).Clo})
	case *ssa.ChangeInterface:
		vc.defineVal(x, &Val{T: vc.term(x.X)})
	case *ssa.MakeInterface:
		vc.defineVal(x, &Val{T: vc.box(vc.term(x.X), x.X.Type())})
	case *ssa.TypeAssert:
		vc.execTypeAssert(x)
	case *ssa.Extract:
		tv := vc.val(x.Tuple)
		if tv.Tuple == nil {
			panic("extract from non-tuple " + x.Tuple.Name())
		}
		vc.vals[x] = tv.Tuple[x.Index]
	case *ssa.Lookup:
		vc.execLookup(x)
	case *ssa.Slice:
		vc.execSlice(x)
	case *ssa.MakeSlice:
		vc.execMakeSlice(x)
	case *ssa.MakeMap:
		vc.execMakeMap(x)
	case *ssa.MapUpdate:
		vc.execMapUpdate(x)
	case *ssa.MakeClosure:
		t := vc.fresh("clo", SInt)
		vc.assume(Cmp("<", IntLit(0), t))
		vc.vals[x] = &Val{T: t, Typ: x.Type(), Clo: x}
		for _, b := range x.Bindings {
			vc.publish(vc.term(b), b.Type())
		}
		vc.logClosure(x, t)
	case *ssa.MakeChan:
		t := vc.fresh("chan", SInt)
		vc.assume(Cmp("<", IntLit(0), t))
		vc.vals[x] = &Val{T: t, Typ: x.Type()}
	case *ssa.Call:
		vc.execCall(x, x.Common(), x)
	case *ssa.Defer:
		vc.defers = append(vc.defers, &deferRec{instr: x, guard: vc.g()})
		if vc.loopOf[vc.curBlock] != nil {
			vc.note("defer inside a loop: deferred calls are abstracted")
			vc.abstract("defer-in-loop")
		}
	case *ssa.RunDefers:
		vc.execRunDefers()
	case *ssa.Go:
		vc.execGo(x)
	case *ssa.Range:
		vc.execRange(x)
	case *ssa.Next:
		vc.execNext(x)
	case *ssa.Select:
		vc.abstract("select")
		vc.cur = vc.cur.havoc("select")
		vc.vals[x] = vc.freshVal("select", x.Type())
	case *ssa.Send:
		vc.abstract("send")
	case *ssa.If:
		c := vc.term(x.Cond)
		r := vc.g()
		vc.edgeCond[vc.curBlock] = []Term{And(r, c), And(r, Not(c))}
		vc.backEdges()
	case *ssa.Jump:
		vc.edgeCond[vc.curBlock] = []Term{vc.g()}
		vc.backEdges()
	case *ssa.Return:
		vc.execReturn(x)
	case *ssa.Panic:
		vc.edgeCond[vc.curBlock] = nil
		if vc.C == nil || !vc.C.PanicsOK {
			vc.oblige("safe.panic", "safe.panic", vc.g(), tFalse, "explicit panic is reachable")
		}
	default:
		vc.abstract(fmt.Sprintf("%T", in))
		if v, ok := in.(ssa.Value); ok {
			vc.vals[v] = vc.freshVal("abs", v.Type())
		}
	}
}

// backEdges checks loop invariants on the back edges leaving the current block.
func (vc *FuncVC) backEdges() {
	b := vc.curBlock
	for i, s := range b.Succs {
		if !isBackEdge(b, s) {
			continue
		}
		li := vc.loops[s]
		invs := vc.loopInvs(li)
		predIdx := -1
		for k, p := range s.Preds {
			if p == b {
				predIdx = k
			}
		}
		env := vc.newEnv(vc.cur, vc.entryState)
		env.loop = li
		env.phiEdge = predIdx
		for _, inv := range invs {
			g, h := inv.goalHyp(vc, env)
			vc.obligeWith("inv.preserve", fmt.Sprintf("inv.loop%d.%s.preserve", li.ordinal, inv.name), vc.edgeCond[b][i], g, h, inv.src)
		}
	}
}

func (vc *FuncVC) execAlloc(x *ssa.Alloc) {
	elem := x.Type().Underlying().(*types.Pointer).Elem()
	r := vc.declare("v!"+x.Name(), SInt)
	a := vc.cur.get("alloc")
	vc.assume(Cmp("<", IntLit(0), r))
	vc.assume(Not(Select(a, r, SBool)))
	vc.assume(Eq(vc.baseOf(r), r))
	vc.cur = vc.cur.set("alloc", Store(a, r, tTrue))
	vc.cur = vc.cur.set("escaped", Store(vc.cur.get("escaped"), r, tFalse))
	vc.vals[x] = &Val{T: r, Typ: x.Type()}
	vc.nonNil[x] = true
	suffix := ""
	if vc.localAlloc[x] {
		suffix = "#L" + x.Name()
	}
	switch u := elem.Underlying().(type) {
	case *types.Struct:
		vc.cur = vc.storeStruct(vc.cur, elem, r, vc.zero(elem), suffix)
	case *types.Array:
		if isStruct(u.Elem()) {
			// zero-initialised struct elements: state it for each leaf component lazily (abstracted)
			vc.note("array of structs allocated: element zero-initialisation not modelled")
		} else {
			c := vc.elemComp(u.Elem())
			s := vc.sortOf(u.Elem())
			z := T(fmt.Sprintf("((as const %s) %s)", arraySort(SInt, s), vc.zero(u.Elem()).S), arraySort(SInt, s))
			vc.cur = vc.cur.set(c, Store(vc.cur.get(c), r, z))
		}
	default:
		c := vc.cellComp(elem, suffix)
		vc.cur = vc.cur.set(c, Store(vc.cur.get(c), r, vc.zero(elem)))
	}
}

func (vc *FuncVC) execFieldAddr(x *ssa.FieldAddr) {
	vc.checkNonNil(x.X, "field."+fieldName(x))
	st := x.X.Type().Underlying().(*types.Pointer).Elem()
	si := vc.structOf(st)
	ref := vc.val(x.X).T
	f := si.Fields[x.Field]
	if isStruct(f.Type) {
		vc.defineVal(x, &Val{T: vc.fldRef(si, x.Field, ref)})
		vc.nonNil[x] = true
		return
	}
	vc.vals[x] = &Val{Loc: &Loc{Comp: vc.fieldComp(si, x.Field, vc.localSuffix(x.X)), Ref: ref, Typ: f.Type}, Typ: x.Type()}
}

func fieldName(x *ssa.FieldAddr) string {
	st := x.X.Type().Underlying().(*types.Pointer).Elem().Underlying().(*types.Struct)
	return st.Field(x.Field).Name()
}

// sliceParts returns (arr, off, len) of an indexable value: slice or pointer to array.
func (vc *FuncVC) sliceParts(v ssa.Value) (arr, off, ln, cp Term, elem types.Type) {
	t := vc.term(v)
	switch u := v.Type().Underlying().(type) {
	case *types.Slice:
		return T(app("s_arr", t), SInt), T(app("s_off", t), SInt), T(app("s_len", t), SInt), T(app("s_cap", t), SInt), u.Elem()
	case *types.Pointer:
		at := u.Elem().Underlying().(*types.Array)
		n := IntLit(at.Len())
		return t, IntLit(0), n, n, at.Elem()
	}
	panic("sliceParts: " + v.Type().String())
}

func (vc *FuncVC) execIndexAddr(x *ssa.IndexAddr) {
	if _, isPtr := x.X.Type().Underlying().(*types.Pointer); isPtr {
		vc.checkNonNil(x.X, "index")
	}
	arr, off, ln, _, elem := vc.sliceParts(x.X)
	i := vc.term(x.Index)
	vc.oblige("safe.index", "safe.index", vc.g(), And(Cmp("<=", IntLit(0), i), Cmp("<", i, ln)), "index out of range: "+x.String())
	idx := Arith("+", off, i)
	if off.S == "0" {
		idx = i
	}
	if isStruct(elem) {
		vc.defineVal(x, &Val{T: vc.elemRef(arr, idx)})
		vc.nonNil[x] = true
		return
	}
	vc.vals[x] = &Val{Loc: &Loc{Comp: vc.elemComp(elem), Ref: arr, Idx: &idx, Typ: elem}, Typ: x.Type()}
}

func (vc *FuncVC) execIndex(x *ssa.Index) {
	if vc.sortOf(x.X.Type()) == SStr {
		s, i := vc.term(x.X), vc.term(x.Index)
		vc.oblige("safe.index", "safe.index", vc.g(), And(Cmp("<=", IntLit(0), i), Cmp("<", i, T(app("len", s), SInt))), "string index out of range: "+x.String())
		vc.defineVal(x, &Val{T: T(app("at", s, i), SInt)})
		return
	}
	// index of an array value (abstracted: arrays by value are opaque)
	vc.abstract("index-array-value")
	vc.vals[x] = vc.freshVal("idx", x.Type())
}

// bitAndConst gives an exact arithmetic form of a & n for non-negative a when n
// is 2^k-1 or 2^k; ok=false otherwise.
func bitAndConst(a Term, n *big.Int) (Term, bool) {
	two := func(k int) Term { return BigLit(new(big.Int).Lsh(big.NewInt(1), uint(k))) }
	if n.Sign() <= 0 {
		return Term{}, false
	}
	n1 := new(big.Int).Add(n, big.NewInt(1))
	if new(big.Int).And(n1, n).Sign() == 0 { // n == 2^k-1
		return T(app("mod", a, two(n1.BitLen()-1)), SInt), true
	}
	if new(big.Int).And(n, new(big.Int).Sub(n, big.NewInt(1))).Sign() == 0 { // n == 2^k
		k := n.BitLen() - 1
		return Arith("*", T(app("mod", T(app("div", a, two(k)), SInt), IntLit(2)), SInt), two(k)), true
	}
	return Term{}, false
}

func (vc *FuncVC) execUnOp(x *ssa.UnOp) {
	switch x.Op {
	case token.MUL:
		vc.checkNonNil(x.X, "load")
		t := vc.load(vc.cur, x.X)
		vc.defineVal(x, &Val{T: t})
		r := vc.vals[x].T
		vc.assume(vc.typeInv(r, x.Type()))
		if vc.val(x.X).Loc == nil || !strings.Contains(vc.val(x.X).Loc.Comp, "#L") {
			vc.assumeAllocated(r, x.Type())
			// memory that has not been written since entry holds references that existed at entry
			unchanged := true
			for _, c := range vc.storeComps(x.X) {
				if vc.cur.get(c).S != vc.entryState.get(c).S {
					unchanged = false
				}
			}
			if unchanged {
				saved := vc.cur
				vc.cur = vc.entryState
				vc.assumeAllocated(r, x.Type())
				vc.cur = saved
			}
		}
	case token.NOT:
		vc.defineVal(x, &Val{T: Not(vc.term(x.X))})
	case token.SUB:
		t := vc.term(x.X)
		if t.Sort == SReal {
			vc.defineVal(x, &Val{T: T(app("-", t), SReal)})
		} else {
			vc.defineVal(x, &Val{T: T(app("-", t), SInt)})
			vc.checkOverflow(vc.vals[x].T, x.Type(), "neg")
		}
	case token.ARROW:
		vc.abstract("chan-recv")
		vc.cur = vc.cur.havoc("recv")
		vc.vals[x] = vc.freshVal("recv", x.Type())
	default:
		vc.abstract("unop" + x.Op.String())
		vc.vals[x] = vc.freshVal("unop", x.Type())
	}
}

func (vc *FuncVC) checkOverflow(r Term, t types.Type, what string) {
	if vc.C != nil && vc.C.NoOvf {
		return
	}
	if lo, hi, ok := intRange(t); ok {
		vc.oblige("safe.overflow", "safe.overflow."+what, vc.g(), And(Cmp("<=", BigLit(lo), r), Cmp("<=", r, BigLit(hi))), "integer overflow in "+what)
	}
}

func isConstOperand(v ssa.Value) (*big.Int, bool) {
	if c, ok := v.(*ssa.Const); ok && c.Value != nil && c.Value.Kind() == constant.Int {
		return bigOf(c.Value), true
	}
	return nil, false
}

func constString(v ssa.Value) (string, bool) {
	if c, ok := v.(*ssa.Const); ok && c.Value != nil && c.Value.Kind() == constant.String {
		return constant.StringVal(c.Value), true
	}
	return "", false
}

func (vc *FuncVC) goDiv(a, b Term) Term {
	// Go truncated division in terms of SMT-LIB Euclidean div
	return Ite(Cmp(">=", a, IntLit(0)), T(app("div", a, b), SInt), T(app("-", T(app("div", T(app("-", a), SInt), b), SInt)), SInt))
}

func (vc *FuncVC) execBinOp(x *ssa.BinOp) {
	a, b := vc.term(x.X), vc.term(x.Y)
	xt := x.X.Type()
	sort := vc.sortOf(xt)
	var r Term
	switch x.Op {
	case token.EQL, token.NEQ:
		var eq Term
		switch {
		case sort == SStr:
			if s, ok := constString(x.Y); ok {
				eq = vc.strEqLit(a, s)
			} else if s, ok := constString(x.X); ok {
				eq = vc.strEqLit(b, s)
			} else {
				eq = Eq(a, b)
			}
		case sort == SSlice:
			// only comparison with nil is legal
			other := a
			if c, ok := x.X.(*ssa.Const); ok && c.Value == nil {
				other = b
			}
			eq = Eq(T(app("s_arr", other), SInt), IntLit(0))
		default:
			eq = Eq(a, b)
		}
		if x.Op == token.NEQ {
			eq = Not(eq)
		}
		r = eq
	case token.LSS, token.LEQ, token.GTR, token.GEQ:
		op := map[token.Token]string{token.LSS: "<", token.LEQ: "<=", token.GTR: ">", token.GEQ: ">="}[x.Op]
		if sort == SStr {
			f := vc.declFun("strless", []string{SStr, SStr}, SBool)
			vc.abstract("string-order")
			switch x.Op {
			case token.LSS:
				r = T(app(f, a, b), SBool)
			case token.GTR:
				r = T(app(f, b, a), SBool)
			case token.LEQ:
				r = Not(T(app(f, b, a), SBool))
			default:
				r = Not(T(app(f, a, b), SBool))
			}
		} else {
			r = Cmp(op, a, b)
		}
	case token.ADD:
		if sort == SStr {
			r = T(app("cat", a, b), SStr)
		} else {
			r = Arith("+", a, b)
		}
	case token.SUB:
		r = Arith("-", a, b)
	case token.MUL:
		r = Arith("*", a, b)
	case token.QUO:
		if sort == SReal {
			r = T(app("/", a, b), SReal)
		} else {
			vc.oblige("safe.div", "safe.div", vc.g(), Not(Eq(b, IntLit(0))), "division by zero")
			r = vc.goDiv(a, b)
		}
	case token.REM:
		vc.oblige("safe.div", "safe.div", vc.g(), Not(Eq(b, IntLit(0))), "division by zero")
		r = Arith("-", a, Arith("*", b, vc.goDiv(a, b)))
	case token.AND, token.OR, token.XOR, token.SHL, token.SHR, token.AND_NOT:
		if sort == SBool {
			switch x.Op {
			case token.AND:
				r = And(a, b)
			case token.OR:
				r = Or(a, b)
			default:
				r = Not(Eq(a, b))
			}
		} else {
			r = vc.bitOp(x, a, b)
		}
	default:
		vc.abstract("binop" + x.Op.String())
		vc.vals[x] = vc.freshVal("binop", x.Type())
		return
	}
	vc.defineVal(x, &Val{T: r})
	if sort == SInt {
		switch x.Op {
		case token.ADD, token.SUB, token.MUL:
			vc.checkOverflow(vc.vals[x].T, x.Type(), x.Op.String())
		case token.QUO:
			// MinInt / -1 overflows
			if lo, _, ok := intRange(x.Type()); ok && lo.Sign() < 0 {
				vc.checkOverflow(vc.vals[x].T, x.Type(), "quo")
			}
		}
	}
}

// bitOp models bit operations on mathematical integers where an exact
// arithmetic equivalent exists; otherwise an uninterpreted function with range facts.
func (vc *FuncVC) bitOp(x *ssa.BinOp, a, b Term) Term {
	two := func(k int) Term { return BigLit(new(big.Int).Lsh(big.NewInt(1), uint(k))) }
	lo, _, _ := intRange(x.X.Type())
	nonneg := lo != nil && lo.Sign() == 0
	switch x.Op {
	case token.SHL:
		if n, ok := isConstOperand(x.Y); ok && n.IsInt64() && n.Int64() < 63 {
			r := Arith("*", a, two(int(n.Int64())))
			return r // overflow obligation generated by caller? shifts wrap silently in Go; we require no wrap
		}
	case token.SHR:
		if n, ok := isConstOperand(x.Y); ok && n.IsInt64() && n.Int64() < 63 {
			return T(app("div", a, two(int(n.Int64()))), SInt)
		}
	case token.AND:
		if n, ok := isConstOperand(x.Y); ok && nonneg {
			if r, ok := bitAndConst(a, n); ok {
				return r
			}
		}
		if n, ok := isConstOperand(x.X); ok && nonneg {
			if r, ok := bitAndConst(b, n); ok {
				return r
			}
		}
	}
	if x.Op == token.OR {
		// (u << k) | (v & (2^k - 1)): the two operands occupy disjoint bits, the result is their sum
		pack := func(hi, lo ssa.Value) bool {
			sh, ok1 := hi.(*ssa.BinOp)
			an, ok2 := lo.(*ssa.BinOp)
			if !ok1 || !ok2 || sh.Op != token.SHL || an.Op != token.AND {
				return false
			}
			k, okk := isConstOperand(sh.Y)
			m, okm := isConstOperand(an.Y)
			if !okk || !okm || !k.IsInt64() || k.Int64() >= 63 {
				return false
			}
			want := new(big.Int).Sub(new(big.Int).Lsh(big.NewInt(1), uint(k.Int64())), big.NewInt(1))
			return m.Cmp(want) == 0
		}
		if nonneg && (pack(x.X, x.Y) || pack(x.Y, x.X)) {
			return Arith("+", a, b)
		}
	}
	vc.abstract("bitop" + x.Op.String())
	if x.Op == token.XOR {
		// on non-negative operands xor is non-negative and at most their sum
		f := vc.declFun("bitxor", []string{SInt, SInt}, SInt)
		r := T(app(f, a, b), SInt)
		vc.assume(Implies(And(Cmp(">=", a, IntLit(0)), Cmp(">=", b, IntLit(0))), And(Cmp(">=", r, IntLit(0)), Cmp("<=", r, Arith("+", a, b)))))
		return r
	}
	name := map[token.Token]string{token.AND: "bitand", token.OR: "bitor", token.XOR: "bitxor", token.SHL: "shl", token.SHR: "shr", token.AND_NOT: "bitandnot"}[x.Op]
	f := vc.declFun(name, []string{SInt, SInt}, SInt)
	r := T(app(f, a, b), SInt)
	return r
}

func (vc *FuncVC) execConvert(x *ssa.Convert) {
	from, to := x.X.Type(), x.Type()
	fs, ts := vc.sortOf(from), vc.sortOf(to)
	a := vc.term(x.X)
	switch {
	case fs == SInt && ts == SInt:
		_, fromInt := from.Underlying().(*types.Basic)
		_, toInt := to.Underlying().(*types.Basic)
		if !fromInt || !toInt {
			// unsafe.Pointer and friends
			vc.defineVal(x, &Val{T: a})
			return
		}
		lo, hi, ok := intRange(to)
		flo, fhi, fok := intRange(from)
		if ok && fok && flo.Sign() == 0 && lo.Sign() == 0 && fhi.Cmp(hi) > 0 {
			// unsigned to narrower unsigned: Go truncates, exactly a mod 2^bits
			vc.defineVal(x, &Val{T: T(app("mod", a, BigLit(new(big.Int).Add(hi, big.NewInt(1)))), SInt)})
			return
		}
		vc.defineVal(x, &Val{T: a})
		if ok && fok && (flo.Cmp(lo) < 0 || fhi.Cmp(hi) > 0) {
			if vc.C == nil || !vc.C.NoOvf {
				vc.oblige("safe.convert", "safe.convert", vc.g(), And(Cmp("<=", BigLit(lo), a), Cmp("<=", a, BigLit(hi))), "integer conversion changes the value: "+x.String())
			}
		}
	case fs == SInt && ts == SReal:
		vc.defineVal(x, &Val{T: ToReal(a)})
		vc.note("int→float64 conversion treated as exact (values below 2^53 are; larger ones round)")
	case fs == SReal && ts == SReal:
		vc.defineVal(x, &Val{T: a})
	case fs == SStr && ts == SStr:
		vc.defineVal(x, &Val{T: a})
	case fs == SSlice && ts == SStr:
		// string(bytes): content copy; modelled through an uninterpreted snapshot function of the element heap
		arr, off, ln, _, elem := vc.sliceParts(x.X)
		h := vc.cur.get(vc.elemComp(elem))
		f := vc.declFun("bytes2str", []string{arraySort(SInt, SInt), SInt, SInt}, SStr)
		vc.onceAssume("bytes2str", T("(forall ((m (Array Int Int)) (o Int) (n Int)) (! (=> (>= n 0) (= (len ("+f+" m o n)) n)) :pattern (("+f+" m o n))))", SBool))
		vc.onceAssume("bytes2str.at", T("(forall ((m (Array Int Int)) (o Int) (n Int) (k Int)) (! (=> (and (<= 0 k) (< k n)) (= (at ("+f+" m o n) k) (select m (+ o k)))) :pattern ((at ("+f+" m o n) k))))", SBool))
		vc.defineVal(x, &Val{T: T(app(f, Select(h, arr, arraySort(SInt, SInt)), off, ln), SStr)})
	case fs == SStr && ts == SSlice:
		// []byte(s): fresh array with the bytes of s
		if sl, ok := to.Underlying().(*types.Slice); ok && vc.sortOf(sl.Elem()) == SInt {
			if b, ok := sl.Elem().Underlying().(*types.Basic); ok && b.Kind() == types.Uint8 {
				arr := vc.freshRef("bytes")
				n := T(app("len", a), SInt)
				c := vc.elemComp(sl.Elem())
				f := vc.declFun("str2bytes", []string{SStr}, arraySort(SInt, SInt))
				vc.onceAssume("str2bytes", T("(forall ((s Str) (k Int)) (! (=> (and (<= 0 k) (< k (len s))) (= (select ("+f+" s) k) (at s k))) :pattern ((select ("+f+" s) k))))", SBool))
				vc.cur = vc.cur.set(c, Store(vc.cur.get(c), arr, T(app(f, a), arraySort(SInt, SInt))))
				vc.defineVal(x, &Val{T: T(app("mk_slice", arr, IntLit(0), n, n), SSlice)})
				return
			}
		}
		vc.abstract("convert:" + from.String() + "->" + to.String())
		vc.vals[x] = vc.freshVal("conv", to)
	default:
		vc.abstract("convert:" + from.String() + "->" + to.String())
		vc.vals[x] = vc.freshVal("conv", to)
	}
}

func (vc *FuncVC) freshRef(prefix string) Term {
	r := vc.fresh(prefix, SInt)
	a := vc.cur.get("alloc")
	vc.assume(Cmp("<", IntLit(0), r))
	vc.assume(Not(Select(a, r, SBool)))
	vc.assume(Eq(vc.baseOf(r), r))
	vc.cur = vc.cur.set("alloc", Store(a, r, tTrue))
	vc.cur = vc.cur.set("escaped", Store(vc.cur.get("escaped"), r, tFalse))
	return r
}

// publish marks the object a reference value points to as known to other code.
func (vc *FuncVC) publish(t Term, typ types.Type) {
	var ref Term
	switch u := typ.Underlying().(type) {
	case *types.Pointer, *types.Map, *types.Chan:
		ref = t
	case *types.Slice:
		ref = T(app("s_arr", t), SInt)
	case *types.Interface:
		pv := vc.declFun("ptrval", []string{SIface}, SInt)
		ref = T(app(pv, t), SInt)
	case *types.Struct:
		si := vc.structOf(typ)
		for i, f := range si.Fields {
			switch f.Type.Underlying().(type) {
			case *types.Pointer, *types.Map, *types.Chan, *types.Slice, *types.Interface:
				vc.publish(vc.structField(si, t, i), f.Type)
			}
		}
		_ = u
		return
	default:
		return
	}
	e := vc.named("esc", vc.cur.get("escaped")) // (named: the term is used twice below)
	b := vc.baseOf(ref)
	vc.cur = vc.cur.set("escaped", Store(e, b, Ite(Eq(ref, IntLit(0)), Select(e, b, SBool), tTrue)))
}

// ---------- interfaces ----------

func (vc *FuncVC) typeID(t types.Type) Term {
	key := types.TypeString(t, nil)
	id, ok := vc.typeIDs[key]
	if !ok {
		id = len(vc.typeIDs) + 1
		vc.typeIDs[key] = id
	}
	vc.concreteTypes[id] = t
	return IntLit(int64(id))
}

func (vc *FuncVC) boxFuncs(t types.Type) (box, unbox string) {
	sort := vc.sortOf(t)
	key := vc.typeName(t)
	box = vc.declFun("box!"+key, []string{sort}, SIface)
	unbox = vc.declFun("unbox!"+key, []string{SIface}, sort)
	if !vc.boxDecl[key] {
		vc.boxDecl[key] = true
		tid := vc.typeID(t)
		pv := vc.declFun("ptrval", []string{SIface}, SInt)
		switch t.Underlying().(type) {
		case *types.Pointer, *types.Map, *types.Chan:
			vc.preDecls = append(vc.preDecls, fmt.Sprintf("(assert (forall ((x Int)) (! (= (%s (%s x)) x) :pattern ((%s x)))))", pv, box, box))
		case *types.Slice:
			vc.preDecls = append(vc.preDecls, fmt.Sprintf("(assert (forall ((x Slice)) (! (= (%s (%s x)) (s_arr x)) :pattern ((%s x)))))", pv, box, box))
		case *types.Signature, *types.Struct, *types.Interface:
			// closures and structs may carry references: nothing is stated
		default:
			// a boxed value without references publishes nothing
			vc.preDecls = append(vc.preDecls, fmt.Sprintf("(assert (forall ((x %s)) (! (= (%s (%s x)) 0) :pattern ((%s x)))))", sort, pv, box, box))
		}
		vc.preDecls = append(vc.preDecls,
			fmt.Sprintf("(assert (forall ((x %s)) (! (and (= (%s (%s x)) x) (= (tagOf (%s x)) %s) (not (= (%s x) nil_iface))) :pattern ((%s x)))))", sort, unbox, box, box, tid.S, box, box),
			fmt.Sprintf("(assert (forall ((i Iface)) (! (=> (and (not (= i nil_iface)) (= (tagOf i) %s)) (= (%s (%s i)) i)) :pattern ((%s i)))))", tid.S, box, unbox, unbox))
	}
	return
}

func (vc *FuncVC) box(v Term, t types.Type) Term {
	if _, isIface := t.Underlying().(*types.Interface); isIface {
		return v
	}
	b, _ := vc.boxFuncs(t)
	return T(app(b, v), SIface)
}

func (vc *FuncVC) execTypeAssert(x *ssa.TypeAssert) {
	v := vc.term(x.X)
	var ok, val Term
	if _, isIface := x.AssertedType.Underlying().(*types.Interface); isIface {
		f := vc.declFun("implements", []string{SInt, SInt}, SBool)
		ok = And(Not(Eq(v, T("nil_iface", SIface))), T(app(f, T(app("tagOf", v), SInt), vc.ifaceID(x.AssertedType)), SBool))
		val = v
	} else {
		_, unbox := vc.boxFuncs(x.AssertedType)
		ok = And(Not(Eq(v, T("nil_iface", SIface))), Eq(T(app("tagOf", v), SInt), vc.typeID(x.AssertedType)))
		val = T(app(unbox, v), vc.sortOf(x.AssertedType))
	}
	if x.CommaOk {
		okc := vc.declare("v!"+x.Name()+".ok", SBool)
		vc.assume(Eq(okc, ok))
		valc := vc.declare("v!"+x.Name()+".v", val.Sort)
		vc.assume(Implies(okc, Eq(valc, val)))
		vc.assume(Implies(Not(okc), Eq(valc, vc.zero(x.AssertedType))))
		vc.assume(vc.typeInv(valc, x.AssertedType))
		vc.vals[x] = &Val{Tuple: []*Val{{T: valc, Typ: x.AssertedType}, {T: okc, Typ: types.Typ[types.Bool]}}, Typ: x.Type()}
		return
	}
	vc.oblige("safe.typeassert", "safe.typeassert", vc.g(), ok, "type assertion may fail: "+x.String())
	vc.defineVal(x, &Val{T: val})
	vc.assume(vc.typeInv(vc.vals[x].T, x.AssertedType))
}

func (vc *FuncVC) ifaceID(t types.Type) Term {
	key := "iface:" + types.TypeString(t, nil)
	id, ok := vc.typeIDs[key]
	if !ok {
		id = len(vc.typeIDs) + 1
		vc.typeIDs[key] = id
	}
	vc.ifaceTypes[id] = t
	return IntLit(int64(id))
}

// implementsFacts: for every concrete type and interface type met so far, whether the
// type's method set satisfies the interface (decided by go/types).
func (vc *FuncVC) implementsFacts() []string {
	var out []string
	// reflect.Kind of every concrete type met (used by dynkind)
	if vc.funcDecl[sym("kindOfTag")] {
		for cid, ct := range vc.concreteTypes {
			if k := reflectKind(ct); k > 0 {
				out = append(out, fmt.Sprintf("(assert (= (|kindOfTag| %d) %d))", cid, k))
			}
		}
	}
	if len(vc.ifaceTypes) == 0 {
		sort.Strings(out)
		return out
	}
	f := vc.declFun("implements", []string{SInt, SInt}, SBool)
	for cid, ct := range vc.concreteTypes {
		if _, isIface := ct.Underlying().(*types.Interface); isIface {
			continue
		}
		for iid, it := range vc.ifaceTypes {
			iface, ok := it.Underlying().(*types.Interface)
			if !ok {
				continue
			}
			v := "false"
			if types.Implements(ct, iface) {
				v = "true"
			}
			out = append(out, fmt.Sprintf("(assert (= (%s %d %d) %s))", f, cid, iid, v))
		}
	}
	// interface subsumption: whatever implements I implements every J whose methods I has
	for iid, it := range vc.ifaceTypes {
		ii, ok := it.Underlying().(*types.Interface)
		if !ok {
			continue
		}
		for jid, jt := range vc.ifaceTypes {
			ji, ok := jt.Underlying().(*types.Interface)
			if !ok || iid == jid {
				continue
			}
			if types.Implements(it, ji) || subsumes(ii, ji) {
				out = append(out, fmt.Sprintf("(assert (forall ((t Int)) (! (=> (%s t %d) (%s t %d)) :pattern ((%s t %d)))))", f, iid, f, jid, f, iid))
			}
		}
	}
	sort.Strings(out)
	return out
}

// reflectKind: the reflect.Kind number of a Go type (0: not modelled).
func reflectKind(t types.Type) int {
	switch u := t.Underlying().(type) {
	case *types.Basic:
		switch u.Kind() {
		case types.Bool:
			return 1
		case types.Int:
			return 2
		case types.Int8:
			return 3
		case types.Int16:
			return 4
		case types.Int32:
			return 5
		case types.Int64:
			return 6
		case types.Uint:
			return 7
		case types.Uint8:
			return 8
		case types.Uint16:
			return 9
		case types.Uint32:
			return 10
		case types.Uint64:
			return 11
		case types.Uintptr:
			return 12
		case types.Float32:
			return 13
		case types.Float64:
			return 14
		case types.Complex64:
			return 15
		case types.Complex128:
			return 16
		case types.String:
			return 24
		case types.UnsafePointer:
			return 26
		}
	case *types.Array:
		return 17
	case *types.Chan:
		return 18
	case *types.Signature:
		return 19
	case *types.Interface:
		return 20
	case *types.Map:
		return 21
	case *types.Pointer:
		return 22
	case *types.Slice:
		return 23
	case *types.Struct:
		return 25
	}
	return 0
}

// subsumes: every method of j is a method of i with an identical signature.
func subsumes(i, j *types.Interface) bool {
	for k := 0; k < j.NumMethods(); k++ {
		m := j.Method(k)
		found := false
		for l := 0; l < i.NumMethods(); l++ {
			if n := i.Method(l); n.Name() == m.Name() && types.Identical(n.Type(), m.Type()) {
				found = true
			}
		}
		if !found {
			return false
		}
	}
	return true
}

// ---------- strings, slices, maps ----------

func (vc *FuncVC) execLookup(x *ssa.Lookup) {
	if vc.sortOf(x.X.Type()) == SStr {
		s, i := vc.term(x.X), vc.term(x.Index)
		vc.oblige("safe.index", "safe.index", vc.g(), And(Cmp("<=", IntLit(0), i), Cmp("<", i, T(app("len", s), SInt))), "string index out of range: "+x.String())
		vc.defineVal(x, &Val{T: T(app("at", s, i), SInt)})
		return
	}
	mt := x.X.Type().Underlying().(*types.Map)
	m, k := vc.term(x.X), vc.term(x.Index)
	ks, vs := vc.sortOf(mt.Key()), vc.sortOf(mt.Elem())
	dc, vcN := vc.mapComps(mt)
	in := And(Not(Eq(m, IntLit(0))), Select(Select(vc.cur.get(dc), m, arraySort(ks, SBool)), k, SBool))
	val := Select(Select(vc.cur.get(vcN), m, arraySort(ks, vs)), k, vs)
	okc := vc.declare("v!"+x.Name()+".ok", SBool)
	vc.assume(Eq(okc, in))
	valc := vc.declare("v!"+x.Name()+".v", vs)
	vc.assume(Eq(valc, Ite(okc, val, vc.zero(mt.Elem()))))
	vc.assume(vc.typeInv(valc, mt.Elem()))
	vc.assumeAllocated(valc, mt.Elem())
	if x.CommaOk {
		vc.vals[x] = &Val{Tuple: []*Val{{T: valc, Typ: mt.Elem()}, {T: okc, Typ: types.Typ[types.Bool]}}, Typ: x.Type()}
	} else {
		vc.vals[x] = &Val{T: valc, Typ: x.Type()}
	}
}

func (vc *FuncVC) execSlice(x *ssa.Slice) {
	opt := func(v ssa.Value, def Term) Term {
		if v == nil {
			return def
		}
		return vc.term(v)
	}
	if vc.sortOf(x.X.Type()) == SStr {
		s := vc.term(x.X)
		n := T(app("len", s), SInt)
		lo, hi := opt(x.Low, IntLit(0)), opt(x.High, n)
		vc.oblige("safe.slice", "safe.slice", vc.g(), And(Cmp("<=", IntLit(0), lo), Cmp("<=", lo, hi), Cmp("<=", hi, n)), "slice bounds out of range: "+x.String())
		vc.defineVal(x, &Val{T: T(app("sub", s, lo, hi), SStr)})
		return
	}
	if _, isPtr := x.X.Type().Underlying().(*types.Pointer); isPtr {
		vc.checkNonNil(x.X, "slice")
	}
	arr, off, ln, cp, _ := vc.sliceParts(x.X)
	lo, hi := opt(x.Low, IntLit(0)), opt(x.High, ln)
	mx := cp
	if x.Max != nil {
		mx = vc.term(x.Max)
		vc.oblige("safe.slice", "safe.slice", vc.g(), And(Cmp("<=", hi, mx), Cmp("<=", mx, cp)), "slice max out of range")
	}
	vc.oblige("safe.slice", "safe.slice", vc.g(), And(Cmp("<=", IntLit(0), lo), Cmp("<=", lo, hi), Cmp("<=", hi, cp)), "slice bounds out of range: "+x.String())
	vc.defineVal(x, &Val{T: T(app("mk_slice", arr, Arith("+", off, lo), Arith("-", hi, lo), Arith("-", mx, lo)), SSlice)})
}

func (vc *FuncVC) execMakeSlice(x *ssa.MakeSlice) {
	elem := x.Type().Underlying().(*types.Slice).Elem()
	ln, cp := vc.term(x.Len), vc.term(x.Cap)
	vc.oblige("safe.makeslice", "safe.makeslice", vc.g(), And(Cmp("<=", IntLit(0), ln), Cmp("<=", ln, cp)), "makeslice: len out of range")
	arr := vc.freshRef("mkslice")
	if !isStruct(elem) {
		c := vc.elemComp(elem)
		s := vc.sortOf(elem)
		z := T(fmt.Sprintf("((as const %s) %s)", arraySort(SInt, s), vc.zero(elem).S), arraySort(SInt, s))
		vc.cur = vc.cur.set(c, Store(vc.cur.get(c), arr, z))
	}
	vc.defineVal(x, &Val{T: T(app("mk_slice", arr, IntLit(0), ln, cp), SSlice)})
}

func (vc *FuncVC) execMakeMap(x *ssa.MakeMap) {
	mt := x.Type().Underlying().(*types.Map)
	r := vc.freshRef("mkmap")
	dc, _ := vc.mapComps(mt)
	ks := vc.sortOf(mt.Key())
	empty := T(fmt.Sprintf("((as const %s) false)", arraySort(ks, SBool)), arraySort(ks, SBool))
	vc.cur = vc.cur.set(dc, Store(vc.cur.get(dc), r, empty))
	vc.vals[x] = &Val{T: r, Typ: x.Type()}
	vc.nonNil[x] = true
}

func (vc *FuncVC) execMapUpdate(x *ssa.MapUpdate) {
	mt := x.Map.Type().Underlying().(*types.Map)
	m, k, v := vc.term(x.Map), vc.term(x.Key), vc.term(x.Value)
	if !vc.nonNil[x.Map] {
		vc.oblige("safe.nil", "safe.nilmap", vc.g(), Not(Eq(m, IntLit(0))), "assignment to entry in nil map")
	}
	dc, vcN := vc.mapComps(mt)
	ks, vs := vc.sortOf(mt.Key()), vc.sortOf(mt.Elem())
	d := vc.cur.get(dc)
	vv := vc.cur.get(vcN)
	vc.cur = vc.cur.set(dc, Store(d, m, Store(Select(d, m, arraySort(ks, SBool)), k, tTrue)))
	vc.cur = vc.cur.set(vcN, Store(vv, m, Store(Select(vv, m, arraySort(ks, vs)), k, v)))
	vc.publish(k, mt.Key())
	vc.publish(v, mt.Elem())
}

// ---------- range ----------

func (vc *FuncVC) execRange(x *ssa.Range) {
	vc.seq++
	it := &iterInfo{id: vc.seq, mapVal: vc.val(x.X)}
	it.comp = vc.comp(fmt.Sprintf("IT!%s", x.Name()), SInt, true)
	if mt, ok := x.X.Type().Underlying().(*types.Map); ok {
		it.mapType = mt
		dc, vcN := vc.mapComps(mt)
		ks, vs := vc.sortOf(mt.Key()), vc.sortOf(mt.Elem())
		m := vc.term(x.X)
		it.domAt = Select(vc.cur.get(dc), m, arraySort(ks, SBool))
		it.valAt = Select(vc.cur.get(vcN), m, arraySort(ks, vs))
		// ghost enumeration of the key set: keyAt / idxOf bijection (DESIGN §2.3)
		names := vc.rangeNames(x)
		n, keyAt, idxOf := names.n, names.keyAt, names.idxOf
		vc.assume(Cmp("<=", IntLit(0), n))
		vc.assume(Implies(Eq(m, IntLit(0)), Eq(n, IntLit(0))))
		dom := it.domAt
		vc.assume(T(fmt.Sprintf("(forall ((i Int)) (! (=> (and (<= 0 i) (< i %s)) (and (select %s (%s i)) (= (%s (%s i)) i))) :pattern ((%s i))))", n.S, dom.S, keyAt, idxOf, keyAt, keyAt), SBool))
		vc.assume(T(fmt.Sprintf("(forall ((k %s)) (! (=> (select %s k) (and (<= 0 (%s k)) (< (%s k) %s) (= (%s (%s k)) k))) :pattern ((%s k))))", ks, dom.S, idxOf, idxOf, n.S, keyAt, idxOf, idxOf), SBool))
	} else {
		it.isStr = true
		vc.abstract("range-string")
	}
	vc.iterOf[x] = it
	vc.cur = vc.cur.set(it.comp, IntLit(0))
	vc.vals[x] = &Val{T: IntLit(int64(it.id)), Typ: x.Type()}
}

type iterNames struct {
	n            Term
	keyAt, idxOf string
}

// rangeNames: the ghost names of a range-over-map iteration (its cardinality and the
// keyAt / idxOf enumeration), declared once per Range instruction. The facts that tie
// them to the map are assumed where the range executes.
func (vc *FuncVC) rangeNames(x *ssa.Range) iterNames {
	if vc.iterNames == nil {
		vc.iterNames = map[ssa.Value]iterNames{}
	}
	if nm, ok := vc.iterNames[x]; ok {
		return nm
	}
	mt := x.X.Type().Underlying().(*types.Map)
	ks := vc.sortOf(mt.Key())
	n := vc.declareGlobal(fmt.Sprintf("card!%s", x.Name()), SInt)
	keyAt := vc.declFun(fmt.Sprintf("keyAt!%s!%s", vc.shortFn(), x.Name()), []string{SInt}, ks)
	idxOf := vc.declFun(fmt.Sprintf("idxOf!%s!%s", vc.shortFn(), x.Name()), []string{ks}, SInt)
	nm := iterNames{n, keyAt, idxOf}
	vc.iterNames[x] = nm
	return nm
}

// staticIter: iteration info for a range-over-map loop whose Range instruction has not
// been executed yet on the way to the current point (names only).
func (vc *FuncVC) staticIter(x *ssa.Range) (*iterInfo, iterNames) {
	mt, ok := x.X.Type().Underlying().(*types.Map)
	if !ok {
		return nil, iterNames{}
	}
	it := &iterInfo{mapType: mt}
	it.comp = vc.comp(fmt.Sprintf("IT!%s", x.Name()), SInt, true)
	return it, vc.rangeNames(x)
}

func (vc *FuncVC) shortFn() string {
	s := vc.Fn.Name()
	if r := vc.Fn.Signature.Recv(); r != nil {
		s = vc.typeName(r.Type()) + "." + s
	}
	return s
}

func (vc *FuncVC) execNext(x *ssa.Next) {
	it := vc.iterOf[x.Iter]
	tup := x.Type().(*types.Tuple)
	if it == nil || it.isStr {
		vc.vals[x] = vc.freshVal("next", tup)
		return
	}
	names := vc.iterNames[x.Iter]
	pos := vc.cur.get(it.comp)
	ok := Cmp("<", pos, names.n)
	okc := vc.declare("v!"+x.Name()+".ok", SBool)
	vc.assume(Eq(okc, ok))
	vc.assume(Cmp("<=", IntLit(0), pos))
	ks, vs := vc.sortOf(it.mapType.Key()), vc.sortOf(it.mapType.Elem())
	k := vc.declare("v!"+x.Name()+".k", ks)
	vc.assume(Implies(okc, Eq(k, T(app(names.keyAt, pos), ks))))
	v := vc.declare("v!"+x.Name()+".v", vs)
	vc.assume(Implies(okc, Eq(v, Select(it.valAt, k, vs))))
	vc.assume(vc.typeInv(k, it.mapType.Key()))
	vc.assume(vc.typeInv(v, it.mapType.Elem()))
	vc.cur = vc.cur.set(it.comp, Ite(okc, Arith("+", pos, IntLit(1)), pos))
	vc.vals[x] = &Val{Tuple: []*Val{{T: okc, Typ: types.Typ[types.Bool]}, {T: k, Typ: it.mapType.Key()}, {T: v, Typ: it.mapType.Elem()}}, Typ: tup}
}

// ---------- return ----------

func (vc *FuncVC) execReturn(x *ssa.Return) {
	vc.edgeCond[vc.curBlock] = nil
	vc.retCount++
	vc.cover(fmt.Sprintf("cover.ret%d", vc.retCount), vc.g())
	if vc.C == nil {
		return
	}
	env := vc.newEnv(vc.cur, vc.entryState)
	env.results = nil
	for _, r := range x.Results {
		env.results = append(env.results, vc.val(r))
	}
	for n, e := range vc.C.Ensures {
		vc.goalSkolemised = false
		f := vc.evalGoal(env, e)
		h := f
		if vc.goalSkolemised {
			h = vc.evalBool(env, e)
		}
		vc.obligeWith("post", "post."+clauseName(e, n), vc.g(), f, h, e.Src)
	}
	vc.checkFrame()
}

// ---------- fresh objects that have not escaped yet ----------

// escapePoints lists the instructions at which the address held by an Alloc (or
// an address derived from it) may become known to other code: passed to a call,
// stored as a value, boxed, captured, returned, merged by a phi.
func (vc *FuncVC) escapePoints(a ssa.Value) []ssa.Instruction {
	if ep, ok := vc.escapes[a]; ok {
		return ep
	}
	var out []ssa.Instruction
	seen := map[ssa.Value]bool{}
	var walk func(v ssa.Value)
	walk = func(v ssa.Value) {
		if seen[v] {
			return
		}
		seen[v] = true
		refs := v.Referrers()
		if refs == nil {
			return
		}
		for _, r := range *refs {
			switch u := r.(type) {
			case *ssa.DebugRef:
			case *ssa.FieldAddr:
				walk(u)
			case *ssa.IndexAddr:
				if u.X == v {
					walk(u)
				} else {
					out = append(out, r)
				}
			case *ssa.UnOp:
				if u.Op != token.MUL {
					out = append(out, r)
				}
			case *ssa.Store:
				if u.Val == v {
					out = append(out, r)
				}
			case *ssa.Phi:
				// merging the address with others does not publish it: follow the merged value
				walk(u)
			case *ssa.Slice:
				// a sub-slice shares the array: follow it
				walk(u)
			case *ssa.Range, *ssa.Lookup, *ssa.MapUpdate:
				// iterating, reading or updating a map/slice does not publish the container
				// (a stored *value* that is itself the walked reference is handled by Store/MapUpdate below)
				if mu, ok := r.(*ssa.MapUpdate); ok && (mu.Key == v || mu.Value == v) {
					out = append(out, r)
				}
			case *ssa.Call:
				if b, isB := u.Call.Value.(*ssa.Builtin); isB {
					switch b.Name() {
					case "len", "cap", "delete":
					case "append":
						if len(u.Call.Args) > 0 && u.Call.Args[0] == v {
							walk(u) // the result may share the array
						}
						// appending the elements of v copies them: v itself is not published
					case "copy":
					default:
						out = append(out, r)
					}
				} else {
					out = append(out, r)
				}
			case *ssa.BinOp:
				// comparisons of the address do not publish it
				if u.Op != token.EQL && u.Op != token.NEQ {
					out = append(out, r)
				}
			case *ssa.If:
			default:
				out = append(out, r)
			}
		}
	}
	walk(a)
	vc.escapes[a] = out
	return out
}

// blockReaches reports whether control can flow from block a to block b through
// at least one edge.
func (vc *FuncVC) blockReaches(a, b *ssa.BasicBlock) bool {
	if vc.breach == nil {
		vc.breach = map[*ssa.BasicBlock]map[*ssa.BasicBlock]bool{}
	}
	m, ok := vc.breach[a]
	if !ok {
		m = map[*ssa.BasicBlock]bool{}
		stack := append([]*ssa.BasicBlock{}, a.Succs...)
		for len(stack) > 0 {
			x := stack[len(stack)-1]
			stack = stack[:len(stack)-1]
			if m[x] {
				continue
			}
			m[x] = true
			stack = append(stack, x.Succs...)
		}
		vc.breach[a] = m
	}
	return m[b]
}

func (vc *FuncVC) mayPrecede(e, at ssa.Instruction) bool {
	eb, ab := e.Block(), at.Block()
	if vc.blockReaches(eb, ab) {
		return true
	}
	if eb == ab {
		return instrIndex(e) < instrIndex(at)
	}
	return false
}

// unescapedAllocs: heap objects allocated by this function whose address cannot
// have reached any other code when instruction `at` executes.
func (vc *FuncVC) unescapedAllocs(at ssa.Instruction) []ssa.Value {
	var out []ssa.Value
	for _, b := range vc.Fn.Blocks {
		for _, in := range b.Instrs {
			var a ssa.Value
			if al, ok := in.(*ssa.Alloc); ok && !vc.localAlloc[al] {
				a = al
			} else if v, ok := in.(ssa.Value); ok && vc.freshVals[v] {
				a = v
			} else if ms, ok := in.(*ssa.MakeSlice); ok {
				a = ms
			} else if mm, ok := in.(*ssa.MakeMap); ok {
				a = mm
			} else if c, ok := in.(*ssa.Call); ok {
				if b, isB := c.Call.Value.(*ssa.Builtin); isB && b.Name() == "append" {
					a = c
				}
			} else if ph, ok := in.(*ssa.Phi); ok {
				// a slice variable that only ever holds slices built here (literals, make, append of itself):
				// as long as none of those has reached other code, neither has whatever it holds now
				if sl, isSl := ph.Type().Underlying().(*types.Slice); isSl && os.Getenv("GOVC_NOPHI") == "" && isBasicElem(sl.Elem()) {
					if origins, ok := vc.sliceOrigins(ph); ok {
						esc := false
						for _, o := range origins {
							for _, e := range vc.escapePoints(o) {
								if e == at || vc.mayPrecede(e, at) {
									esc = true
								}
							}
						}
						if !esc {
							a = ph
						}
					}
				}
			}
			if a == nil {
				continue
			}
			if _, done := vc.vals[a]; !done {
				continue
			}
			if !vc.mayPrecede(in, at) {
				continue
			}
			esc := false
			for _, e := range vc.escapePoints(a) {
				if e == at || vc.mayPrecede(e, at) {
					esc = true
					break
				}
			}
			if !esc {
				out = append(out, a)
			}
		}
	}
	return out
}

func isBasicElem(t types.Type) bool {
	_, ok := t.Underlying().(*types.Basic)
	return ok
}

// sliceOrigins: the allocating instructions a slice-typed phi can draw its backing array from
// (through phis, re-slicing and append of itself); ok is false when some source is not an
// allocation of this function (a parameter, a loaded value, a call result).
func (vc *FuncVC) sliceOrigins(ph *ssa.Phi) ([]ssa.Value, bool) {
	var out []ssa.Value
	seen := map[ssa.Value]bool{}
	ok := true
	var walk func(v ssa.Value)
	walk = func(v ssa.Value) {
		if seen[v] || !ok {
			return
		}
		seen[v] = true
		switch x := v.(type) {
		case *ssa.Phi:
			for _, e := range x.Edges {
				walk(e)
			}
		case *ssa.Slice:
			walk(x.X)
		case *ssa.Alloc:
			if vc.localAlloc[x] {
				ok = false
				return
			}
			out = append(out, x)
		case *ssa.MakeSlice:
			out = append(out, x)
		case *ssa.Const:
			// nil slice
		case *ssa.Call:
			if b, isB := x.Call.Value.(*ssa.Builtin); isB && b.Name() == "append" && len(x.Call.Args) > 0 {
				out = append(out, x)
				walk(x.Call.Args[0])
				return
			}
			ok = false
		default:
			ok = false
		}
	}
	walk(ph)
	return out, ok
}

// immutableCell: a captured variable that is never assigned after the closures
// sharing it were created (only initialised by its defining function before the
// first MakeClosure). Its content is a constant for the closure body.
func (vc *FuncVC) immutableCell(fv *ssa.FreeVar) (Term, bool) {
	if t, ok := vc.cellConst[fv]; ok {
		return t, t.S != ""
	}
	vc.cellConst[fv] = Term{}
	fn := fv.Parent()
	parent := fn.Parent()
	elem := fv.Type().Underlying().(*types.Pointer).Elem()
	if parent == nil || isStruct(elem) {
		return Term{}, false
	}
	idx := -1
	for i, f := range fn.FreeVars {
		if f == fv {
			idx = i
		}
	}
	// the closure itself (and the closures it hands the cell to) must only read it
	if !onlyLoadsDeep(fv) {
		return Term{}, false
	}
	// find the cell in the parent and check every other user
	for _, b := range parent.Blocks {
		for _, in := range b.Instrs {
			mc, ok := in.(*ssa.MakeClosure)
			if !ok || mc.Fn != fn {
				continue
			}
			cell := mc.Bindings[idx]
			if !cellImmutableIn(cell, parent) {
				return Term{}, false
			}
		}
	}
	t := vc.declare("cell!"+fv.Name(), vc.sortOf(elem))
	vc.assume(vc.typeInv(t, elem))
	vc.cellConst[fv] = t
	vc.note("captured variable %s is never reassigned after capture: read as a constant", fv.Name())
	return t, true
}

// onlyLoadsDeep: the cell is only read, here and in every closure it is captured by.
func onlyLoadsDeep(v ssa.Value) bool {
	refs := v.Referrers()
	if refs == nil {
		return false
	}
	for _, r := range *refs {
		switch u := r.(type) {
		case *ssa.DebugRef:
		case *ssa.UnOp:
			if u.Op != token.MUL {
				return false
			}
		case *ssa.MakeClosure:
			for i, b := range u.Bindings {
				if b == v && !onlyLoadsDeep(u.Fn.(*ssa.Function).FreeVars[i]) {
					return false
				}
			}
		default:
			return false
		}
	}
	return true
}

func onlyLoads(v ssa.Value) bool {
	refs := v.Referrers()
	if refs == nil {
		return false
	}
	for _, r := range *refs {
		switch u := r.(type) {
		case *ssa.DebugRef:
		case *ssa.UnOp:
			if u.Op != token.MUL {
				return false
			}
		default:
			return false
		}
	}
	return true
}

// cellImmutableIn: in the defining function the cell is stored to only before
// any closure captures it, and every closure capturing it only reads it.
func cellImmutableIn(cell ssa.Value, parent *ssa.Function) bool {
	switch c := cell.(type) {
	case *ssa.Alloc:
		refs := c.Referrers()
		if refs == nil {
			return false
		}
		var stores []*ssa.Store
		var closures []*ssa.MakeClosure
		for _, r := range *refs {
			switch u := r.(type) {
			case *ssa.DebugRef:
			case *ssa.UnOp:
				if u.Op != token.MUL {
					return false
				}
			case *ssa.Store:
				if u.Addr != c {
					return false
				}
				stores = append(stores, u)
			case *ssa.MakeClosure:
				closures = append(closures, u)
				for i, b := range u.Bindings {
					if b == c {
						if !onlyLoadsDeep(u.Fn.(*ssa.Function).FreeVars[i]) {
							return false
						}
					}
				}
			default:
				return false
			}
		}
		for _, s := range stores {
			for _, m := range closures {
				// the store must not be able to execute after the capture on the same cell
				sb, mb := s.Block(), m.Block()
				if sb == mb {
					if instrIndex(s) > instrIndex(m) {
						return false
					}
					if sb != c.Block() && reachableAvoiding(mb, sb, c.Block()) {
						return false
					}
				} else if sb == c.Block() {
					// (a store in a later loop iteration goes to a new cell: every way
					// back to it re-executes the allocation first)
					if instrIndex(s) < instrIndex(c) {
						return false
					}
				} else if reachableAvoiding(mb, sb, c.Block()) {
					return false
				}
			}
		}
		return true
	case *ssa.FreeVar:
		// a cell passed down from an enclosing closure: must be read-only there too
		return onlyLoadsDeep(c) && cellOfFreeVarImmutable(c)
	}
	return false
}

// cellOfFreeVarImmutable: the cell a free variable stands for is immutable in the
// function that created the closure.
func cellOfFreeVarImmutable(fv *ssa.FreeVar) bool {
	fn := fv.Parent()
	parent := fn.Parent()
	if parent == nil {
		return false
	}
	idx := -1
	for i, f := range fn.FreeVars {
		if f == fv {
			idx = i
		}
	}
	for _, b := range parent.Blocks {
		for _, in := range b.Instrs {
			if mc, ok := in.(*ssa.MakeClosure); ok && mc.Fn == fn {
				if !cellImmutableIn(mc.Bindings[idx], parent) {
					return false
				}
			}
		}
	}
	return true
}

func onlyLoadsOrCapture(v ssa.Value) bool {
	refs := v.Referrers()
	if refs == nil {
		return false
	}
	for _, r := range *refs {
		switch u := r.(type) {
		case *ssa.DebugRef:
		case *ssa.UnOp:
			if u.Op != token.MUL {
				return false
			}
		case *ssa.MakeClosure:
		default:
			return false
		}
	}
	return true
}

func reachable(from, to *ssa.BasicBlock) bool { return reachableAvoiding(from, to, nil) }

func reachableAvoiding(from, to, avoid *ssa.BasicBlock) bool {
	seen := map[*ssa.BasicBlock]bool{}
	if avoid != nil {
		seen[avoid] = true
	}
	stack := append([]*ssa.BasicBlock{}, from.Succs...)
	for len(stack) > 0 {
		x := stack[len(stack)-1]
		stack = stack[:len(stack)-1]
		if seen[x] {
			continue
		}
		seen[x] = true
		if x == to {
			return true
		}
		stack = append(stack, x.Succs...)
	}
	return false
}

// capturedOnly: the cell's address is used only by loads, stores to it, and closure captures.
func capturedOnly(a *ssa.Alloc) bool {
	refs := a.Referrers()
	if refs == nil {
		return false
	}
	for _, r := range *refs {
		switch u := r.(type) {
		case *ssa.DebugRef, *ssa.MakeClosure:
		case *ssa.UnOp:
			if u.Op != token.MUL {
				return false
			}
		case *ssa.Store:
			if u.Addr != a {
				return false
			}
		default:
			return false
		}
	}
	return true
}
