package main

// Contract language: lexer, expression parser and contract-file reader.
// Contracts are comment lines starting with "//@" in /repo/**/contracts_verif.go
// (build tag verif) and in /verif/specs/*.spec (assumed contracts of the
// standard library and of dependencies).

import (
	"fmt"
	"math/big"
	"os"
	"path/filepath"
	"strconv"
	"strings"
	"unicode"
)

// ---------- AST ----------

type Expr interface{}

type (
	EInt   struct{ V *big.Int }
	EReal  struct{ V string }
	EStr   struct{ V string }
	EBool  struct{ V bool }
	ENil   struct{}
	EIdent struct{ Name string }
	EUnary struct {
		Op string
		X  Expr
	}
	EBinary struct {
		Op   string
		X, Y Expr
	}
	ECall struct {
		Fun  Expr
		Args []Expr
	}
	EIndex struct{ X, I Expr }
	ESlice struct{ X, Lo, Hi Expr }
	EField struct {
		X    Expr
		Name string
	}
	EQuant struct {
		Forall bool
		Vars   []Binder
		Body   Expr
		Hints  [][]Expr // @try(e1, e2, …): candidate witnesses for an existential goal
		Pats   [][]Expr // @pat(e1, e2, …): a trigger (multi-pattern) for the quantifier when it is assumed
	}
	ECond struct{ C, A, B Expr }
)

type Binder struct{ Name, Type string }

// ---------- lexer ----------

type ctoken struct {
	kind string // "int","real","str","char","id","op","eof"
	text string
}

func lex(src string) ([]ctoken, error) {
	var toks []ctoken
	i := 0
	for i < len(src) {
		c := src[i]
		switch {
		case c == ' ' || c == '\t':
			i++
		case unicode.IsLetter(rune(c)) || c == '_' || c == '\\':
			j := i + 1
			for j < len(src) && (unicode.IsLetter(rune(src[j])) || unicode.IsDigit(rune(src[j])) || src[j] == '_' || src[j] == '$') {
				j++
			}
			toks = append(toks, ctoken{"id", src[i:j]})
			i = j
		case unicode.IsDigit(rune(c)):
			j := i + 1
			isReal := false
			if c == '0' && j < len(src) && (src[j] == 'x' || src[j] == 'X') {
				j++
				for j < len(src) && strings.ContainsRune("0123456789abcdefABCDEF_", rune(src[j])) {
					j++
				}
			} else {
				for j < len(src) && (unicode.IsDigit(rune(src[j])) || src[j] == '_') {
					j++
				}
				if j+1 < len(src) && src[j] == '.' && unicode.IsDigit(rune(src[j+1])) {
					isReal = true
					j++
					for j < len(src) && unicode.IsDigit(rune(src[j])) {
						j++
					}
				}
			}
			if isReal {
				toks = append(toks, ctoken{"real", src[i:j]})
			} else {
				toks = append(toks, ctoken{"int", strings.ReplaceAll(src[i:j], "_", "")})
			}
			i = j
		case c == '"':
			j := i + 1
			for j < len(src) && src[j] != '"' {
				if src[j] == '\\' {
					j++
				}
				j++
			}
			if j >= len(src) {
				return nil, fmt.Errorf("unterminated string")
			}
			s, err := strconv.Unquote(src[i : j+1])
			if err != nil {
				return nil, err
			}
			toks = append(toks, ctoken{"str", s})
			i = j + 1
		case c == '\'':
			j := i + 1
			for j < len(src) && src[j] != '\'' {
				if src[j] == '\\' {
					j++
				}
				j++
			}
			if j >= len(src) {
				return nil, fmt.Errorf("unterminated char")
			}
			r, _, _, err := strconv.UnquoteChar(src[i+1:j], '\'')
			if err != nil {
				return nil, err
			}
			toks = append(toks, ctoken{"int", strconv.Itoa(int(r))})
			i = j + 1
		default:
			ops := []string{"<==>", "==>", "::", ":=", "==", "!=", "<=", ">=", "&&", "||", "<<", ">>", "&^"}
			matched := false
			for _, op := range ops {
				if strings.HasPrefix(src[i:], op) {
					toks = append(toks, ctoken{"op", op})
					i += len(op)
					matched = true
					break
				}
			}
			if !matched {
				if strings.ContainsRune("+-*/%<>!()[].,:?&|^@", rune(c)) {
					toks = append(toks, ctoken{"op", string(c)})
					i++
				} else {
					return nil, fmt.Errorf("unexpected character %q", c)
				}
			}
		}
	}
	toks = append(toks, ctoken{"eof", ""})
	return toks, nil
}

// ---------- parser ----------

type parser struct {
	toks []ctoken
	pos  int
}

func (p *parser) peek() ctoken { return p.toks[p.pos] }
func (p *parser) next() ctoken { t := p.toks[p.pos]; p.pos++; return t }
func (p *parser) isOp(s string) bool {
	t := p.peek()
	return t.kind == "op" && t.text == s
}
func (p *parser) accept(s string) bool {
	if p.isOp(s) {
		p.pos++
		return true
	}
	return false
}
func (p *parser) expect(s string) {
	if !p.accept(s) {
		panic(fmt.Errorf("expected %q, found %q", s, p.peek().text))
	}
}

func ParseExpr(src string) (e Expr, err error) {
	toks, err := lex(src)
	if err != nil {
		return nil, err
	}
	p := &parser{toks: toks}
	defer func() {
		if r := recover(); r != nil {
			if re, ok := r.(error); ok {
				err = fmt.Errorf("%v in %q", re, src)
				return
			}
			panic(r)
		}
	}()
	e = p.parseExpr()
	if p.peek().kind != "eof" {
		panic(fmt.Errorf("trailing input at %q", p.peek().text))
	}
	return e, nil
}

func (p *parser) parseExpr() Expr {
	t := p.peek()
	if t.kind == "id" && (t.text == "forall" || t.text == "exists") {
		p.next()
		q := &EQuant{Forall: t.text == "forall"}
		for {
			var names []string
			names = append(names, p.ident())
			for p.accept(",") {
				names = append(names, p.ident())
			}
			typ := p.typeName()
			for _, n := range names {
				q.Vars = append(q.Vars, Binder{n, typ})
			}
			for p.accept("@") {
				kw := p.ident()
				if kw != "try" && kw != "pat" {
					panic(fmt.Errorf("expected @try or @pat, found @%s", kw))
				}
				p.expect("(")
				var hs []Expr
				for {
					hs = append(hs, p.parseExpr())
					if p.accept(")") {
						break
					}
					p.expect(",")
				}
				if kw == "try" {
					q.Hints = append(q.Hints, hs)
				} else {
					q.Pats = append(q.Pats, hs)
				}
			}
			if p.accept("::") {
				break
			}
			p.expect(",")
		}
		q.Body = p.parseExpr()
		return q
	}
	c := p.parseIff()
	if p.accept("?") {
		a := p.parseExpr()
		p.expect(":")
		b := p.parseExpr()
		return &ECond{c, a, b}
	}
	return c
}

// typeName parses a binder type: an identifier, optionally qualified (pkg.T) and
// prefixed by * or [].
func (p *parser) typeName() string {
	prefix := ""
	for {
		if p.accept("*") {
			prefix += "*"
			continue
		}
		if p.accept("[") {
			p.expect("]")
			prefix += "[]"
			continue
		}
		break
	}
	name := p.ident()
	if p.peek().kind != "id" && p.peek().text == "." {
		p.next()
		name += "." + p.ident()
	}
	return prefix + name
}

func (p *parser) ident() string {
	t := p.next()
	if t.kind != "id" {
		panic(fmt.Errorf("expected identifier, found %q", t.text))
	}
	return t.text
}

func (p *parser) parseIff() Expr {
	x := p.parseImp()
	for p.accept("<==>") {
		y := p.parseImp()
		x = &EBinary{"<==>", x, y}
	}
	return x
}

func (p *parser) parseImp() Expr {
	x := p.parseOr()
	if p.accept("==>") {
		var y Expr
		t := p.peek()
		if t.kind == "id" && (t.text == "forall" || t.text == "exists") {
			y = p.parseExpr()
		} else {
			y = p.parseImp()
		}
		return &EBinary{"==>", x, y}
	}
	return x
}

func (p *parser) parseOr() Expr {
	x := p.parseAnd()
	for p.accept("||") {
		x = &EBinary{"||", x, p.parseAnd()}
	}
	return x
}

func (p *parser) parseAnd() Expr {
	x := p.parseCmp()
	for p.accept("&&") {
		x = &EBinary{"&&", x, p.parseCmp()}
	}
	return x
}

func (p *parser) parseCmp() Expr {
	t := p.peek()
	if t.kind == "id" && (t.text == "forall" || t.text == "exists") {
		return p.parseExpr()
	}
	x := p.parseAdd()
	for _, op := range []string{"==", "!=", "<=", ">=", "<", ">"} {
		if p.isOp(op) {
			p.next()
			return &EBinary{op, x, p.parseAdd()}
		}
	}
	return x
}

func (p *parser) parseAdd() Expr {
	x := p.parseMul()
	for {
		switch {
		case p.accept("+"):
			x = &EBinary{"+", x, p.parseMul()}
		case p.accept("-"):
			x = &EBinary{"-", x, p.parseMul()}
		case p.accept("|"):
			x = &EBinary{"|", x, p.parseMul()}
		case p.accept("^"):
			x = &EBinary{"^", x, p.parseMul()}
		default:
			return x
		}
	}
}

func (p *parser) parseMul() Expr {
	x := p.parseUnary()
	for {
		switch {
		case p.accept("*"):
			x = &EBinary{"*", x, p.parseUnary()}
		case p.accept("/"):
			x = &EBinary{"/", x, p.parseUnary()}
		case p.accept("%"):
			x = &EBinary{"%", x, p.parseUnary()}
		case p.accept("<<"):
			x = &EBinary{"<<", x, p.parseUnary()}
		case p.accept(">>"):
			x = &EBinary{">>", x, p.parseUnary()}
		case p.accept("&^"):
			x = &EBinary{"&^", x, p.parseUnary()}
		case p.accept("&"):
			x = &EBinary{"&", x, p.parseUnary()}
		default:
			return x
		}
	}
}

func (p *parser) parseUnary() Expr {
	if p.accept("!") {
		return &EUnary{"!", p.parseUnary()}
	}
	if p.accept("-") {
		return &EUnary{"-", p.parseUnary()}
	}
	if p.accept("*") {
		return &EUnary{"*", p.parseUnary()}
	}
	return p.parsePostfix()
}

func (p *parser) parsePostfix() Expr {
	x := p.parsePrimary()
	for {
		switch {
		case p.accept("."):
			x = &EField{x, p.ident()}
		case p.accept("("):
			var args []Expr
			if !p.accept(")") {
				for {
					args = append(args, p.parseExpr())
					if p.accept(")") {
						break
					}
					p.expect(",")
				}
			}
			x = &ECall{x, args}
		case p.accept("["):
			var lo, hi Expr
			if p.accept(":") {
				if !p.isOp("]") {
					hi = p.parseExpr()
				}
				p.expect("]")
				x = &ESlice{x, nil, hi}
				continue
			}
			lo = p.parseExpr()
			if p.accept(":") {
				if !p.isOp("]") {
					hi = p.parseExpr()
				}
				p.expect("]")
				x = &ESlice{x, lo, hi}
				continue
			}
			p.expect("]")
			x = &EIndex{x, lo}
		default:
			return x
		}
	}
}

func (p *parser) parsePrimary() Expr {
	t := p.next()
	switch t.kind {
	case "int":
		n := new(big.Int)
		if _, ok := n.SetString(t.text, 0); !ok {
			panic(fmt.Errorf("bad integer %q", t.text))
		}
		return &EInt{n}
	case "real":
		return &EReal{t.text}
	case "str":
		return &EStr{t.text}
	case "id":
		switch t.text {
		case "true":
			return &EBool{true}
		case "false":
			return &EBool{false}
		case "nil":
			return &ENil{}
		}
		return &EIdent{t.text}
	case "op":
		if t.text == "(" {
			e := p.parseExpr()
			p.expect(")")
			return e
		}
	}
	panic(fmt.Errorf("unexpected token %q", t.text))
}

// ---------- contract files ----------

type Clause struct {
	Kind string // requires, ensures
	Src  string
	E    Expr
	Name string // optional label, e.g. "Q1"
	File string
	Line int
}

type LoopSpec struct {
	Invariants []*Clause
	HavocAll   bool
}

type Watch struct {
	Label   string
	Pattern string // "invoke pkg.Iface.Method" | "call qualified.Func" | "callfn" ...
	Tag     Expr   // optional
	TagSrc  string
}

type SpecMacro struct {
	Name   string
	Params []string
	Types  []string // parameter types (fun only)
	IsFun  bool     // named abstraction: an SMT function with a definitional axiom
	Body   Expr
	Src    string
	Pkg    string
}

type LogicFunc struct {
	Name   string
	Params []string // sort names (contract type names)
	Result string
}

type Contract struct {
	FuncName string // fully qualified SSA name
	Pkg      string
	Requires []*Clause
	Assumes  []*Clause // assumed when the function is entered, not asked of callers: a data-structure invariant established elsewhere (listed)
	Ensures  []*Clause
	Assigns  []string // raw designators; nil means unspecified; ["\\nothing"] means none
	HasAssgn bool
	Loops    map[int]*LoopSpec
	Watches  []*Watch
	Pure     bool // result is a function of the arguments (uninterpreted function application at call sites)
	Trusted  bool // assumed, body not verified
	PanicsOK bool // explicit panics are allowed (not proved unreachable)
	NoOvf    bool // do not generate overflow obligations (stated assumption)
	Mode     string
	Ghost    []string
	File     string
	Line     int
	Params   []string // optional explicit parameter names (assumed contracts)
	Results  []string
	Frees    []string
	Opaque   map[string]bool // callees to treat as opaque even if contracted
	Inline   bool
	AssumeAfter map[string][]*Clause // label -> assumptions made right after a watched call returns (listed)
	MayAbsent   map[string]bool      // watch labels allowed to match no call (clauses that forbid a call)
	Effects     map[string][]string  // label -> locations the watched (opaque) call may write besides what opaque code writes: call-backs into this repository
	Uses     []string // lemmas (proved separately) assumed at entry
	FreshResult bool // the (single, pointer) result is a freshly allocated object no one else references
	Stable   []string // locations assumed not to be written by opaque callees (listed assumption)
}

type Lemma struct {
	Name   string
	Pkg    string
	Clause *Clause
}

type ContractSet struct {
	Funcs   map[string]*Contract
	Macros  map[string]*SpecMacro // keyed by pkg-qualified and bare
	Logic   map[string]*LogicFunc
	Axioms  []*Clause
	Lemmas  []*Lemma // closed formulas over package-level constants and contracts, proved once
	Files   []string
	Assumed map[string]bool // contract names that come from /verif/specs
}

func NewContractSet() *ContractSet {
	return &ContractSet{Funcs: map[string]*Contract{}, Macros: map[string]*SpecMacro{}, Logic: map[string]*LogicFunc{}, Assumed: map[string]bool{}}
}

// qualify turns a package-relative function designator into the SSA full name.
//   skipSpace            -> <pkg>.skipSpace
//   (*Runtime).Submit    -> (*<pkg>.Runtime).Submit
//   (baseCheck).Base     -> (<pkg>.baseCheck).Base
func qualify(pkg, name string) string {
	if pkg == "" {
		return name
	}
	if strings.HasPrefix(name, "(*") {
		return "(*" + pkg + "." + name[2:]
	}
	if strings.HasPrefix(name, "(") {
		return "(" + pkg + "." + name[1:]
	}
	return pkg + "." + name
}

// LoadContractFile parses one contract file. pkgPath is the import path that
// relative function names are qualified with ("" for spec files, whose names are
// already fully qualified).
func (cs *ContractSet) LoadContractFile(path, pkgPath string, assumed bool) error {
	data, err := os.ReadFile(path)
	if err != nil {
		return err
	}
	cs.Files = append(cs.Files, path)
	var cur *Contract
	lines := strings.Split(string(data), "\n")
	for ln := 0; ln < len(lines); ln++ {
		line := strings.TrimSpace(lines[ln])
		if !strings.HasPrefix(line, "//@") {
			continue
		}
		body := strings.TrimSpace(line[3:])
		// continuation lines: "//@+ ..."
		for ln+1 < len(lines) && strings.HasPrefix(strings.TrimSpace(lines[ln+1]), "//@+") {
			ln++
			body += " " + strings.TrimSpace(strings.TrimSpace(lines[ln])[4:])
		}
		if body == "" {
			continue
		}
		// strip trailing comment "  // ..."
		if i := strings.Index(body, " // "); i >= 0 {
			body = strings.TrimSpace(body[:i])
		}
		word, rest := splitWord(body)
		fail := func(e error) error { return fmt.Errorf("%s:%d: %v", path, ln+1, e) }
		mk := func(kind, src string) (*Clause, error) {
			name := ""
			if strings.HasPrefix(src, "[") {
				if j := strings.Index(src, "]"); j > 0 {
					name = src[1:j]
					src = strings.TrimSpace(src[j+1:])
				}
			}
			e, err := ParseExpr(src)
			if err != nil {
				return nil, fail(err)
			}
			return &Clause{Kind: kind, Src: src, E: e, Name: name, File: path, Line: ln + 1}, nil
		}
		switch word {
		case "func":
			// func NAME [(params) (results)] — only NAME is used for binding
			name := rest
			var params, results []string
			if i := strings.Index(rest, " :: "); i >= 0 {
				name = strings.TrimSpace(rest[:i])
				sig := strings.TrimSpace(rest[i+4:])
				parts := strings.SplitN(sig, "->", 2)
				for _, f := range strings.Split(parts[0], ",") {
					if f = strings.TrimSpace(f); f != "" {
						params = append(params, f)
					}
				}
				if len(parts) == 2 {
					for _, f := range strings.Split(parts[1], ",") {
						if f = strings.TrimSpace(f); f != "" {
							results = append(results, f)
						}
					}
				}
			}
			full := qualify(pkgPath, name)
			cur = &Contract{FuncName: full, Pkg: pkgPath, Loops: map[int]*LoopSpec{}, File: path, Line: ln + 1, Params: params, Results: results, Trusted: assumed, Opaque: map[string]bool{}}
			if _, dup := cs.Funcs[full]; dup {
				return fail(fmt.Errorf("duplicate contract for %s", full))
			}
			cs.Funcs[full] = cur
			if assumed {
				cs.Assumed[full] = true
			}
		case "requires", "ensures", "assumes":
			if cur == nil {
				return fail(fmt.Errorf("%s outside func block", word))
			}
			c, err := mk(word, rest)
			if err != nil {
				return err
			}
			if word == "requires" {
				cur.Requires = append(cur.Requires, c)
			} else if word == "assumes" {
				cur.Assumes = append(cur.Assumes, c)
			} else {
				cur.Ensures = append(cur.Ensures, c)
			}
		case "assigns":
			if cur == nil {
				return fail(fmt.Errorf("assigns outside func block"))
			}
			cur.HasAssgn = true
			for _, a := range splitTop(rest, ',') {
				a = strings.TrimSpace(a)
				if a != "" && a != "\\nothing" {
					cur.Assigns = append(cur.Assigns, a)
				}
			}
		case "pure":
			cur.Pure = true
		case "trusted":
			cur.Trusted = true
		case "fresh":
			cur.FreshResult = true
		case "inline":
			cur.Inline = true
		case "panics":
			if rest == "ok" {
				cur.PanicsOK = true
			}
		case "nooverflow":
			cur.NoOvf = true
		case "mode":
			cur.Mode = rest
		case "uses":
			for _, a := range splitTop(rest, ',') {
				if a = strings.TrimSpace(a); a != "" {
					cur.Uses = append(cur.Uses, a)
				}
			}
		case "opaque":
			cur.Opaque[rest] = true
		case "assume":
			// assume after <Label> <expr>
			kw, r2 := splitWord(rest)
			if kw != "after" {
				return fail(fmt.Errorf("expected: assume after <label> <expr>"))
			}
			lab, r3 := splitWord(r2)
			c, err := mk("assume", r3)
			if err != nil {
				return err
			}
			if cur.AssumeAfter == nil {
				cur.AssumeAfter = map[string][]*Clause{}
			}
			cur.AssumeAfter[lab] = append(cur.AssumeAfter[lab], c)
		case "mayabsent":
			if cur.MayAbsent == nil {
				cur.MayAbsent = map[string]bool{}
			}
			for _, a := range splitTop(rest, ',') {
				if a = strings.TrimSpace(a); a != "" {
					cur.MayAbsent[a] = true
				}
			}
		case "effect":
			// effect <Label> <designator>, ... : the call labelled L may also write these locations
			lab, r2 := splitWord(rest)
			if cur.Effects == nil {
				cur.Effects = map[string][]string{}
			}
			for _, a := range splitTop(r2, ',') {
				if a = strings.TrimSpace(a); a != "" {
					cur.Effects[lab] = append(cur.Effects[lab], a)
				}
			}
		case "stable":
			for _, a := range splitTop(rest, ',') {
				if a = strings.TrimSpace(a); a != "" {
					cur.Stable = append(cur.Stable, a)
				}
			}
		case "loop":
			// loop K invariant E | loop K havoc
			ks, r2 := splitWord(rest)
			k, err := strconv.Atoi(ks)
			if err != nil {
				return fail(fmt.Errorf("bad loop ordinal %q", ks))
			}
			kw, r3 := splitWord(r2)
			ls := cur.Loops[k]
			if ls == nil {
				ls = &LoopSpec{}
				cur.Loops[k] = ls
			}
			switch kw {
			case "invariant":
				c, err := mk("invariant", r3)
				if err != nil {
					return err
				}
				ls.Invariants = append(ls.Invariants, c)
			case "decreases":
				// termination is not verified (DESIGN §4.6); accepted and ignored
			default:
				return fail(fmt.Errorf("unknown loop clause %q", kw))
			}
		case "watch":
			// watch L = pattern [tag E]
			i := strings.Index(rest, "=")
			if i < 0 {
				return fail(fmt.Errorf("bad watch"))
			}
			w := &Watch{Label: strings.TrimSpace(rest[:i])}
			pat := strings.TrimSpace(rest[i+1:])
			if j := strings.Index(pat, " tag "); j >= 0 {
				w.TagSrc = strings.TrimSpace(pat[j+5:])
				e, err := ParseExpr(w.TagSrc)
				if err != nil {
					return fail(err)
				}
				w.Tag = e
				pat = strings.TrimSpace(pat[:j])
			}
			w.Pattern = pat
			cur.Watches = append(cur.Watches, w)
		case "spec", "fun":
			// spec name(a, b) := expr        (macro, expanded in place)
			// fun  name(a T, b U) := expr    (named abstraction, typed parameters)
			i := strings.Index(rest, ":=")
			if i < 0 {
				return fail(fmt.Errorf("bad spec"))
			}
			head := strings.TrimSpace(rest[:i])
			j := strings.Index(head, "(")
			if j < 0 || !strings.HasSuffix(head, ")") {
				return fail(fmt.Errorf("bad spec head"))
			}
			m := &SpecMacro{Name: strings.TrimSpace(head[:j]), Src: rest, IsFun: word == "fun", Pkg: pkgPath}
			for _, a := range splitTop(head[j+1:len(head)-1], ',') {
				a = strings.TrimSpace(a)
				if a == "" {
					continue
				}
				// allow "name type"
				f := strings.SplitN(a, " ", 2)
				m.Params = append(m.Params, f[0])
				if len(f) == 2 {
					m.Types = append(m.Types, strings.TrimSpace(f[1]))
				} else {
					m.Types = append(m.Types, "")
				}
			}
			e, err := ParseExpr(strings.TrimSpace(rest[i+2:]))
			if err != nil {
				return fail(err)
			}
			m.Body = e
			cs.Macros[m.Name] = m
		case "logic":
			// logic name(T1, T2) T
			j := strings.Index(rest, "(")
			k := strings.LastIndex(rest, ")")
			if j < 0 || k < j {
				return fail(fmt.Errorf("bad logic decl"))
			}
			lf := &LogicFunc{Name: strings.TrimSpace(rest[:j]), Result: strings.TrimSpace(rest[k+1:])}
			for _, a := range strings.Split(rest[j+1:k], ",") {
				if a = strings.TrimSpace(a); a != "" {
					f := strings.Fields(a)
					lf.Params = append(lf.Params, f[len(f)-1])
				}
			}
			cs.Logic[lf.Name] = lf
		case "lemma":
			c, err := mk("lemma", rest)
			if err != nil {
				return err
			}
			if c.Name == "" {
				return fail(fmt.Errorf("lemma needs a [label]"))
			}
			cs.Lemmas = append(cs.Lemmas, &Lemma{Name: c.Name, Pkg: pkgPath, Clause: c})
		case "axiom":
			c, err := mk("axiom", rest)
			if err != nil {
				return err
			}
			cs.Axioms = append(cs.Axioms, c)
		case "package", "note":
			// informational
		default:
			return fail(fmt.Errorf("unknown clause %q", word))
		}
	}
	return nil
}

func splitWord(s string) (string, string) {
	s = strings.TrimSpace(s)
	i := strings.IndexAny(s, " \t")
	if i < 0 {
		return s, ""
	}
	return s[:i], strings.TrimSpace(s[i+1:])
}

func splitTop(s string, sep byte) []string {
	var out []string
	depth := 0
	last := 0
	for i := 0; i < len(s); i++ {
		switch s[i] {
		case '(', '[':
			depth++
		case ')', ']':
			depth--
		default:
			if s[i] == sep && depth == 0 {
				out = append(out, s[last:i])
				last = i + 1
			}
		}
	}
	out = append(out, s[last:])
	return out
}

// LoadRepoContracts finds every contracts_verif.go under repo and loads it,
// qualifying names with the package import path.
func (cs *ContractSet) LoadRepoContracts(repo, modPath string) error {
	return filepath.Walk(repo, func(path string, info os.FileInfo, err error) error {
		if err != nil {
			return nil
		}
		if info.IsDir() {
			if info.Name() == ".git" {
				return filepath.SkipDir
			}
			return nil
		}
		if info.Name() != "contracts_verif.go" {
			return nil
		}
		rel, _ := filepath.Rel(repo, filepath.Dir(path))
		pkg := modPath
		if rel != "." {
			pkg = modPath + "/" + filepath.ToSlash(rel)
		}
		return cs.LoadContractFile(path, pkg, false)
	})
}

func (cs *ContractSet) LoadSpecDir(dir string) error {
	files, _ := filepath.Glob(filepath.Join(dir, "*.spec"))
	for _, f := range files {
		if err := cs.LoadContractFile(f, "", true); err != nil {
			return err
		}
	}
	return nil
}
