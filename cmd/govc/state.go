package main

import (
	"fmt"
	"strings"
)

// State is a persistent, lazily materialised symbolic heap: a map from heap
// component name (DESIGN §2.3: one map per struct field, per element sort, per
// map type, per call-log label …) to the SMT term denoting its current version.
type stKind int

const (
	stEntry stKind = iota
	stDerived
	stJoin
	stLoop
	stHavoc
)

type predEdge struct {
	cond Term
	st   *State
}

type State struct {
	id     int
	kind   stKind
	parent *State
	preds  []predEdge
	w      map[string]Term
	// stLoop: comps modified in the loop (nil + havocAll => every unprotected comp)
	modset   map[string]bool
	havocAll bool
	// stHavoc: comps explicitly havoc'd in addition to (or instead of) all unprotected ones
	only map[string]bool
	loop *loopInfo
	havocTotal bool // stHavoc: every component except logs/locals is unknown
	vc   *FuncVC
	tag  string
}

func (vc *FuncVC) newState(kind stKind, parent *State) *State {
	vc.stateSeq++
	return &State{id: vc.stateSeq, kind: kind, parent: parent, w: map[string]Term{}, vc: vc}
}

// protected reports whether a component is outside the reach of code that is not
// part of this repository (global frame assumption, DESIGN §2.7), or is a
// non-escaping local, an iterator position or a call-log component.
func (vc *FuncVC) protected(comp string) bool {
	if strings.Contains(comp, "#L") {
		return true
	}
	if vc.C != nil {
		for _, d := range vc.C.Stable {
			if d == "comp:"+comp {
				return true
			}
		}
	}
	switch {
	case strings.HasPrefix(comp, "IT!"), strings.HasPrefix(comp, "LG!"), comp == "clock":
		return true
	case comp == "alloc", comp == "escaped":
		return true
	case strings.HasPrefix(comp, "F!"), strings.HasPrefix(comp, "G!"):
		return vc.compRepo[comp]
	}
	return false
}

func (s *State) get(comp string) Term {
	vc := s.vc
	if t, ok := s.w[comp]; ok {
		return t
	}
	sort, ok := vc.comps[comp]
	if !ok {
		panic("unregistered heap component " + comp)
	}
	var res Term
	switch s.kind {
	case stEntry:
		res = vc.declare(fmt.Sprintf("%s@0", comp), sort)
		vc.entryComps[comp] = res
	case stDerived:
		res = s.parent.get(comp)
	case stHavoc:
		hav := false
		if s.only != nil && s.only[comp] {
			hav = true
		}
		if s.havocAll && !vc.protected(comp) {
			hav = true
		}
		if s.havocTotal && comp != "alloc" && comp != "escaped" && !strings.Contains(comp, "#L") && !strings.HasPrefix(comp, "LG!") && !strings.HasPrefix(comp, "IT!") && comp != "clock" {
			hav = true
		}
		if hav {
			res = vc.declare(fmt.Sprintf("%s@h%d", comp, s.id), sort)
			if comp == "alloc" {
				// allocation only grows
			}
		} else {
			res = s.parent.get(comp)
		}
	case stLoop:
		mod := s.modset[comp] || (s.havocAll && !vc.protected(comp))
		if s.loop != nil && strings.HasPrefix(comp, "LG!") {
			for _, l := range s.loop.logLabels {
				if strings.HasPrefix(comp, "LG!"+l+"!") {
					mod = true
				}
			}
		}
		if mod {
			res = vc.declare(fmt.Sprintf("%s@l%d", comp, s.id), sort)
		} else {
			res = s.joinGet(comp, sort)
		}
	case stJoin:
		res = s.joinGet(comp, sort)
	}
	s.w[comp] = res
	if strings.HasSuffix(res.S, fmt.Sprintf("@0|")) || strings.Contains(res.S, fmt.Sprintf("@h%d|", s.id)) || strings.Contains(res.S, fmt.Sprintf("@l%d|", s.id)) {
		s.closed(comp, res)
	}
	return res
}

// closed states, for a freshly introduced version of a component that holds slices
// inside containers (map values, slice elements), that every stored slice refers to
// nil or to an allocated array: the heap of a Go program holds no dangling references.
// (Directly loaded references get the same fact at the load.)
func (s *State) closed(comp string, v Term) {
	vc := s.vc
	var idx1, idx2 string
	switch {
	case strings.HasPrefix(comp, "MV!") && strings.HasSuffix(comp, "!Slice"):
		ks, _ := arrayParts(func() string { _, row := arrayParts(vc.comps[comp]); return row }())
		idx1, idx2 = SInt, ks
	case comp == "E!Slice":
		idx1, idx2 = SInt, SInt
	case strings.HasPrefix(comp, "F!") && vc.comps[comp] == arraySort(SInt, SSlice):
		// a slice-typed field of any object
		al := s.get("alloc")
		e := fmt.Sprintf("(select %s r)", v.S)
		arr := "(s_arr " + e + ")"
		vc.assume(T(fmt.Sprintf("(forall ((r Int)) (! (or (= %s 0) (and (select %s (|baseOf| %s)) (= (|baseOf| %s) %s))) :pattern (%s)))", arr, al.S, arr, arr, arr, e), SBool))
		return
	default:
		return
	}
	al := s.get("alloc")
	e := fmt.Sprintf("(select (select %s m) k)", v.S)
	arr := "(s_arr " + e + ")"
	vc.assume(T(fmt.Sprintf("(forall ((m %s) (k %s)) (! (or (= %s 0) (and (select %s (|baseOf| %s)) (= (|baseOf| %s) %s))) :pattern (%s)))", idx1, idx2, arr, al.S, arr, arr, arr, e), SBool))
}

func (s *State) joinGet(comp, sort string) Term {
	vc := s.vc
	var ts []Term
	same := true
	for _, p := range s.preds {
		t := p.st.get(comp)
		if len(ts) > 0 && t.S != ts[0].S {
			same = false
		}
		ts = append(ts, t)
	}
	if len(ts) == 0 {
		return vc.declare(fmt.Sprintf("%s@u%d", comp, s.id), sort)
	}
	if same {
		return ts[0]
	}
	res := vc.declare(fmt.Sprintf("%s@j%d", comp, s.id), sort)
	for i, p := range s.preds {
		vc.assume(Implies(p.cond, Eq(res, ts[i])))
	}
	return res
}

func (s *State) set(comp string, t Term) *State {
	n := s.vc.newState(stDerived, s)
	n.w[comp] = t
	return n
}

// havoc returns a state in which every unprotected component is unknown.
func (s *State) havoc(tag string) *State {
	n := s.vc.newState(stHavoc, s)
	n.havocAll = true
	n.tag = tag
	return n
}

// havocOnly returns a state in which exactly the listed components are unknown.
func (s *State) havocOnly(comps []string, tag string) *State {
	n := s.vc.newState(stHavoc, s)
	n.only = map[string]bool{}
	for _, c := range comps {
		n.only[c] = true
	}
	n.tag = tag
	return n
}
