package main

import (
	"context"
	"encoding/json"
	"flag"
	"fmt"
	"go/types"
	"os"
	"os/exec"
	"path/filepath"
	"sort"
	"strconv"
	"strings"
	"time"

	"golang.org/x/tools/go/ssa"
)

func pkgOf(fn *ssa.Function) *types.Package {
	for f := fn; f != nil; f = f.Parent() {
		if f.Pkg != nil {
			return f.Pkg.Pkg
		}
	}
	return nil
}

// PropSpec is the per-property configuration in /verif/props.json.
type PropSpec struct {
	Title      string    `json:"title"`
	Pkgs       []string  `json:"pkgs"`
	Funcs      []string  `json:"funcs"`   // functions under contract (short names)
	Sweep      []string  `json:"sweep"`   // thorough: regexps of functions for the zero-annotation safety sweep
	Trusted    []string  `json:"trusted"` // assumptions specific to the property
	NotDecided []string  `json:"not_decided"`
	Bounded    []string  `json:"bounded"`
	StandIns   []StandIn `json:"stand_ins"` // bounded checks of what the contracts assume (labelled bounded, never counted as proved)
}

// StandIn is a bounded check, run on the real code through `go test -overlay`, of a fact the
// contracts assume about a function outside the verifier's reach.
type StandIn struct {
	Name  string `json:"name"`
	Dir   string `json:"dir"`   // package directory relative to the repository root
	File  string `json:"file"`  // harness file under /verif/harness
	Run   string `json:"run"`   // test name
	Bound string `json:"bound"` // the stated bound
}

type oblReport struct {
	Name   string `json:"name"`
	Kind   string `json:"kind"`
	Status string `json:"status"`
	Solver string `json:"solver"`
	Ms     int64  `json:"ms"`
	Clause string `json:"clause,omitempty"`
}

type fnReport struct {
	Role        string         `json:"role,omitempty"`
	Name        string         `json:"name"`
	Obligations int            `json:"obligations"`
	Discharged  int            `json:"discharged"`
	KnownFinds  int            `json:"known_finding_obligations,omitempty"`
	Covers      int            `json:"covers"`
	Instrs      int            `json:"ssa_instructions"`
	Abstracted  int            `json:"ssa_instructions_abstracted"`
	AbstractedW map[string]int `json:"abstracted_what,omitempty"`
	Notes       []string       `json:"notes,omitempty"`
	Loops       int            `json:"loops"`
	Mode        string         `json:"integer_mode"`
}

type knownFinding struct {
	Kind       string // finding | fixed
	Property   string
	Obligation string
	Rest       string
}

func loadKnownFindings(path string) []knownFinding {
	data, err := os.ReadFile(path)
	if err != nil {
		return nil
	}
	var out []knownFinding
	for _, line := range strings.Split(string(data), "\n") {
		line = strings.TrimSpace(line)
		if line == "" || strings.HasPrefix(line, "#") {
			continue
		}
		kf := knownFinding{}
		switch {
		case strings.HasPrefix(line, "finding:"):
			kf.Kind = "finding"
			line = strings.TrimSpace(line[len("finding:"):])
		case strings.HasPrefix(line, "fixed:"):
			kf.Kind = "fixed"
			line = strings.TrimSpace(line[len("fixed:"):])
		default:
			continue
		}
		for _, f := range strings.Fields(line) {
			if strings.HasPrefix(f, "property=") {
				kf.Property = f[len("property="):]
			}
			if strings.HasPrefix(f, "obligation=") {
				kf.Obligation = f[len("obligation="):]
			}
		}
		kf.Rest = strings.TrimSpace(strings.TrimPrefix(line, "property="+kf.Property))
		out = append(out, kf)
	}
	return out
}

// clauseProp: a clause label "C11:S1" restricts the clause to property C11.
func clauseProp(name string) string {
	// obligation names look like  pkg.Func#post.C11:S1  or  #inv.loop0.C10:U1.entry
	i := strings.Index(name, "#")
	if i < 0 {
		return ""
	}
	for _, part := range strings.Split(name[i+1:], ".") {
		if j := strings.Index(part, ":"); j > 0 && len(part) > 1 && part[0] == 'C' {
			if _, err := strconv.Atoi(part[1:j]); err == nil {
				return part[:j]
			}
		}
	}
	return ""
}

func cmdCheck(args []string) {
	fs := flag.NewFlagSet("check", flag.ExitOnError)
	tier := fs.String("tier", "", "quick|thorough")
	repo := fs.String("repo", "", "repository (default $VERIF_REPO or /repo)")
	verbose := fs.Bool("v", false, "print every obligation")
	var prop string
	if len(args) > 0 && !strings.HasPrefix(args[0], "-") {
		prop = args[0]
		args = args[1:]
	}
	fs.Parse(args)
	if prop == "" && fs.NArg() > 0 {
		prop = fs.Arg(0)
	}
	if *tier == "" {
		*tier = os.Getenv("VERIF_TIER")
	}
	if *tier == "" {
		*tier = "quick"
	}
	if *repo == "" {
		*repo = os.Getenv("VERIF_REPO")
	}
	if *repo == "" {
		*repo = "/repo"
	}
	seed, _ := strconv.Atoi(os.Getenv("VERIF_SEED"))
	vdir := verifDir()
	var props map[string]*PropSpec
	data, err := os.ReadFile(filepath.Join(vdir, "props.json"))
	if err != nil {
		fmt.Fprintln(os.Stderr, err)
		os.Exit(2)
	}
	if err := json.Unmarshal(data, &props); err != nil {
		fmt.Fprintln(os.Stderr, "props.json:", err)
		os.Exit(2)
	}
	ps := props[prop]
	if ps == nil {
		fmt.Fprintf(os.Stderr, "unknown property %q\n", prop)
		os.Exit(2)
	}
	os.Exit(runCheck(prop, ps, *tier, *repo, seed, *verbose))
}

type failure struct {
	obl    *Obl
	vc     *FuncVC
	reason string
}

func runCheck(prop string, ps *PropSpec, tier, repo string, seed int, verbose bool) int {
	t0 := time.Now()
	vdir := verifDir()
	timeout := 45
	if tier == "thorough" {
		timeout = 90
	}
	outDir := vdir
	if d := os.Getenv("VERIF_OUT"); d != "" {
		// scratch runs (selftests, seeded changes) must not overwrite the evidence of the real tree
		outDir = d
	}
	evPath := filepath.Join(outDir, "evidence", prop+".json")
	_ = os.MkdirAll(filepath.Dir(evPath), 0o755)
	replayDir := filepath.Join(outDir, "replays", prop)
	_ = os.RemoveAll(replayDir)
	_ = os.MkdirAll(replayDir, 0o755)

	p, err := LoadProg(repo, ps.Pkgs, filepath.Join(vdir, "specs"))
	if err != nil {
		// the tree does not load (does not compile, or a contract file does not parse):
		// this is an error of the check's input, not a verdict
		fmt.Fprintf(os.Stderr, "govc: cannot load %s: %v\n", repo, err)
		return 2
	}
	loadS := time.Since(t0).Seconds()

	var failures []failure
	countedIn := map[*Obl]int{} // failed obligations that were counted in totalObl -> index of their function report
	var fnReports []fnReport
	var oblReports []oblReport
	var samples []interface{}
	assumed := map[string]bool{}
	totalObl, totalDis, totalCover := 0, 0, 0
	var solverMs int64
	var bindFailures []string

	autoAdded := map[string]bool{}
	lemmasNeeded := map[string]bool{}
	lemmasProved := map[string]bool{}
	funcs := append([]string{}, ps.Funcs...)
	// a clause labelled for this property is an obligation of this property wherever it stands:
	// functions carrying one are verified here even if props.json does not list them
	labelled := map[string]bool{}
	for _, full := range sortedKeys(p.CS.Funcs) {
		con := p.CS.Funcs[full]
		fn := p.Funcs[full]
		if con == nil || con.Trusted || p.CS.Assumed[full] || fn == nil || fn.Blocks == nil || !p.inRepoPkg(pkgOf(fn)) {
			continue
		}
		has := false
		chk := func(cs []*Clause) {
			for _, c := range cs {
				if strings.HasPrefix(c.Name, prop+":") {
					has = true
				}
			}
		}
		chk(con.Requires)
		chk(con.Ensures)
		for _, ls := range con.Loops {
			chk(ls.Invariants)
		}
		if !has {
			continue
		}
		us := p.shortName(full)
		seen := false
		for _, f := range funcs {
			if f == us {
				seen = true
			}
		}
		if !seen {
			funcs = append(funcs, us)
			labelled[us] = true
		}
	}
	for fi := 0; fi < len(funcs); fi++ {
		short := funcs[fi]
		if fi == len(funcs)-1 {
			// lemmas used by the functions above and not listed explicitly are proved too
			for _, n := range sortedKeys(lemmasNeeded) {
				if !lemmasProved[n] && n != strings.TrimPrefix(short, "lemma:") {
					lemmasProved[n] = true
					funcs = append(funcs, "lemma:"+n)
				}
			}
		}
		if strings.HasPrefix(short, "lemma:") {
			lemmasProved[strings.TrimPrefix(short, "lemma:")] = true
			// lemma:<label> — a closed formula stated in a contract file
			vc, err := lemmaVC(p, strings.TrimPrefix(short, "lemma:"))
			if err != nil {
				bindFailures = append(bindFailures, fmt.Sprintf("bind.%s: %v", short, err))
				continue
			}
			vc.Discharge(timeout, 16, "")
			fr := fnReport{Name: short, Mode: "lemma over package-level constants"}
			for _, o := range vc.obls {
				solverMs += o.Ms
				totalObl++
				fr.Obligations++
				oblReports = append(oblReports, oblReport{Name: o.Name, Kind: o.Kind, Status: o.Status, Solver: o.Solver, Ms: o.Ms, Clause: o.Desc})
				if o.Status == "discharged" {
					totalDis++
					fr.Discharged++
				} else {
					failures = append(failures, failure{o, vc, o.Status})
					countedIn[o] = len(fnReports)
				}
			}
			fnReports = append(fnReports, fr)
			continue
		}
		full := fullName(p, short)
		fn := p.Funcs[full]
		con := p.CS.Funcs[full]
		if fn == nil || fn.Blocks == nil {
			bindFailures = append(bindFailures, fmt.Sprintf("bind.%s: function not found in the working tree", short))
			continue
		}
		if con == nil {
			bindFailures = append(bindFailures, fmt.Sprintf("bind.%s: no contract found (contracts_verif.go missing or renamed function)", short))
			continue
		}
		vc := NewFuncVC(p, fn, con)
		if err := vc.Run(); err != nil {
			bindFailures = append(bindFailures, fmt.Sprintf("bind.%s: contract does not bind to the code: %v", short, err))
			continue
		}
		// contracts of repository callees used at call sites are part of the proof: verify them too
		// (transitively), unless they are declared trusted or come from /verif/specs
		for _, used := range sortedKeys(vc.contractUse) {
			ucon := p.CS.Funcs[used]
			ufn := p.Funcs[used]
			if ucon == nil || ucon.Trusted || p.CS.Assumed[used] || ufn == nil || ufn.Blocks == nil || !p.inRepoPkg(pkgOf(ufn)) {
				continue
			}
			us := p.shortName(used)
			seen := false
			for _, f := range funcs {
				if f == us {
					seen = true
				}
			}
			if !seen {
				funcs = append(funcs, us)
				autoAdded[us] = true
			}
		}
		// keep the obligations of this property
		var keep []*Obl
		for _, o := range vc.obls {
			if cp := clauseProp(o.Name); cp != "" && cp != prop && os.Getenv("GOVC_ALL_LABELS") == "" {
				continue
			}
			keep = append(keep, o)
		}
		vc.obls = keep
		vc.Discharge(timeout, 16, "")
		fr := fnReport{Name: short, Instrs: vc.nInstr, Abstracted: vc.nAbstract, AbstractedW: vc.abstracted, Notes: vc.notes, Loops: len(vc.loops), Mode: "mathematical integers with generated no-overflow obligations"}
		if autoAdded[short] {
			fr.Role = "callee whose contract a function of this property relies on (added automatically)"
		}
		if labelled[short] {
			fr.Role = "carries clauses labelled for this property (added automatically)"
		}
		if con.NoOvf {
			fr.Mode = "mathematical integers; machine arithmetic treated as mathematical (no overflow obligations)"
		}
		// vacuity: a function none of whose returns can be reached satisfies every postcondition for free
		// (a guard turned into "always panic", a contradictory invariant): that is a failure, not a proof
		retCovers, retVacuous := 0, 0
		var firstRet *Obl
		for _, o := range vc.obls {
			if o.Cover && strings.Contains(o.Name, "#cover.ret") {
				retCovers++
				if firstRet == nil {
					firstRet = o
				}
				if o.Status == "vacuous" {
					retVacuous++
				}
			}
		}
		if retCovers > 0 && retVacuous == retCovers {
			failures = append(failures, failure{firstRet, vc, "vacuity: no return of " + short + " is reachable, its postconditions hold for free"})
		}
		for _, o := range vc.obls {
			solverMs += o.Ms
			if o.Cover {
				totalCover++
				fr.Covers++
				if o.Status == "vacuous" && strings.HasSuffix(o.Name, "#cover.pre") {
					failures = append(failures, failure{o, vc, "vacuity: the precondition and axioms of " + short + " are contradictory"})
				}
				continue
			}
			totalObl++
			fr.Obligations++
			oblReports = append(oblReports, oblReport{Name: o.Name, Kind: o.Kind, Status: o.Status, Solver: o.Solver, Ms: o.Ms, Clause: o.Desc})
			if o.Status == "discharged" {
				totalDis++
				fr.Discharged++
				if len(samples) < 3 && (o.Kind == "post" || o.Kind == "inv.preserve") {
					samples = append(samples, map[string]string{"obligation": o.Name, "clause": o.Desc, "negated_goal_smt2": truncate("(assert "+o.Guard.S+") (assert (not "+o.Formula.S+"))", 1500)})
				}
			} else {
				failures = append(failures, failure{o, vc, o.Status})
				countedIn[o] = len(fnReports)
			}
			if verbose {
				fmt.Printf("   %-10s %s [%s %dms]\n", o.Status, o.Name, o.Solver, o.Ms)
			}
		}
		for n := range vc.assumedUsed {
			assumed[n] = true
		}
		for n := range vc.lemmasUsed {
			lemmasNeeded[n] = true
			if fi == len(funcs)-1 && !lemmasProved[n] {
				lemmasProved[n] = true
				funcs = append(funcs, "lemma:"+n)
			}
		}
		fnReports = append(fnReports, fr)
	}

	// known findings
	kfs := loadKnownFindings(filepath.Join(vdir, "KNOWN_FINDINGS.txt"))
	known := map[string]knownFinding{}
	for _, kf := range kfs {
		if kf.Kind == "finding" && kf.Property == prop {
			known[kf.Obligation] = kf
		}
	}
	var knownSeen []string
	var real []failure
	// An obligation that fails and is listed as a known finding is not part of what this run proves:
	// it is taken out of the obligation count of the proof and reported on its own (known_finding_obligations),
	// so that obligations/discharged describe exactly the obligations the proof-level claim stands on.
	var kfObls []map[string]string
	for _, f := range failures {
		if kf, ok := known[f.obl.Name]; ok {
			fmt.Printf("KNOWN-FINDING: property=%s %s\n", prop, kf.Rest)
			knownSeen = append(knownSeen, kf.Rest)
			if i, counted := countedIn[f.obl]; counted {
				delete(countedIn, f.obl)
				totalObl--
				fnReports[i].Obligations--
				fnReports[i].KnownFinds++
				kfObls = append(kfObls, map[string]string{"obligation": f.obl.Name, "clause": f.obl.Desc, "status": f.reason, "solver": f.obl.Solver, "listed_as": truncate(kf.Rest, 400)})
				for j := range oblReports {
					if oblReports[j].Name == f.obl.Name {
						oblReports[j].Status = "known finding (not discharged: " + f.reason + ")"
					}
				}
			}
			continue
		}
		real = append(real, f)
	}

	violations := 0
	exit := 0
	if len(bindFailures) > 0 {
		path := filepath.Join(replayDir, "bind.txt")
		_ = os.WriteFile(path, []byte("The contracts of property "+prop+" no longer bind to the code, so the proof no longer exists:\n"+strings.Join(bindFailures, "\n")+"\n"), 0o644)
		fmt.Printf("VIOLATION property=%s replay=%s no-failing-input-found\n", prop, path)
		for _, b := range bindFailures {
			fmt.Println("  " + b)
		}
		violations++
		exit = 1
	}
	if len(real) > 0 {
		sort.SliceStable(real, func(i, j int) bool { return real[i].obl.Name < real[j].obl.Name })
		first := real[0]
		path, replayed := writeReplay(p, prop, replayDir, first, real, repo, timeout)
		suffix := ""
		if !replayed {
			suffix = " no-failing-input-found"
		}
		fmt.Printf("VIOLATION property=%s replay=%s%s\n", prop, path, suffix)
		for _, f := range real {
			fmt.Printf("  failed obligation %s (%s): %s\n", f.obl.Name, f.reason, f.obl.Desc)
		}
		violations += len(real)
		exit = 1
	}

	// bounded stand-ins for assumed facts
	var standInReports []map[string]interface{}
	for _, si := range ps.StandIns {
		rep, out, ok := runStandIn(vdir, repo, tier, seed, si)
		standInReports = append(standInReports, rep)
		// observations the harness reports as findings: listed in KNOWN_FINDINGS.txt -> KNOWN-FINDING, otherwise a violation
		for _, l := range strings.Split(out, "\n") {
			l = strings.TrimSpace(l)
			if !strings.HasPrefix(l, "GOVC-STANDIN-FINDING obligation=") {
				continue
			}
			rest := strings.TrimPrefix(l, "GOVC-STANDIN-FINDING obligation=")
			key := strings.Fields(rest)[0]
			if kf, listed := known[key]; listed {
				fmt.Printf("KNOWN-FINDING: property=%s %s\n", prop, kf.Rest)
				knownSeen = append(knownSeen, kf.Rest)
				continue
			}
			path := filepath.Join(replayDir, "standin-"+fileSafe(si.Name)+"-"+fileSafe(key)+".txt")
			_ = os.WriteFile(path, []byte("Bounded stand-in "+si.Name+" of property "+prop+" observed on the real code (input below):\n"+rest+"\n"), 0o644)
			fmt.Printf("VIOLATION property=%s replay=%s\n", prop, path)
			violations++
			exit = 1
		}
		if !ok {
			path := filepath.Join(replayDir, "standin-"+fileSafe(si.Name)+".txt")
			_ = os.WriteFile(path, []byte("Bounded stand-in "+si.Name+" of property "+prop+" failed on the real code for the input below (a bounded check standing in for something the contracts assume or leave undecided).\nbound: "+si.Bound+"\n\n"+out), 0o644)
			fmt.Printf("VIOLATION property=%s replay=%s\n", prop, path)
			violations++
			exit = 1
		}
	}

	// thorough: turn the check on itself (stored seeded changes, sampled mutants)
	var selfTest map[string]interface{}
	if exit == 0 && selfTestEnabled(tier) {
		selfTest = runSelfTest(prop, ps, repo, seed, p)
		if e, bad := selfTest["error"]; bad {
			fmt.Printf("SELFTEST property=%s not run: %v\n", prop, e)
		} else {
			fmt.Printf("SELFTEST property=%s seeded %v/%v reported, mutants %v/%v reported (of %v tried)\n", prop, selfTest["seeded_reported"], selfTest["seeded_total"], selfTest["mutants_reported"], selfTest["mutants_compiled"], selfTest["mutants_tried"])
		}
	}

	// evidence
	var trusted []string
	trusted = append(trusted, "go/packages, go/types, go/ssa (x/tools v0.29.0) and govc's encoding of SSA instructions (DESIGN Appendix B)")
	trusted = append(trusted, "SMT solvers z3 5.1.0, z3 4.8.12, cvc5 1.0 (an 'unsat' answer is trusted; raced)")
	var an []string
	for n := range assumed {
		an = append(an, n)
	}
	sort.Strings(an)
	for _, n := range an {
		trusted = append(trusted, "assumed contract (not proved): "+n)
	}
	trusted = append(trusted, ps.Trusted...)
	assumptions := []string{
		"global frame assumption: code outside this repository does not write fields of struct types declared in it (DESIGN §2.7)",
		"callees do not re-enter watched callees unless their contract says so (DESIGN §2.4)",
		"termination is not verified",
	}
	for _, fr := range fnReports {
		for _, n := range fr.Notes {
			assumptions = append(assumptions, fr.Name+": "+n)
		}
	}
	ev := map[string]interface{}{
		"property_id": prop,
		"tier":        tier,
		"seed":        seed,
		"level":       "proof",
		"wall_s":      time.Since(t0).Seconds(),
		"violations":  violations,
		"assumptions": assumptions,
		"coverage": map[string]interface{}{
			"obligations":               totalObl,
			"discharged":                totalDis,
			"obligations_generated":     totalObl + len(kfObls),
			"known_finding_obligations": kfObls,
			"counting_rule":             "obligations = the proof obligations generated from the current source for this property, minus those that failed AND are listed in KNOWN_FINDINGS.txt for it (known_finding_obligations: each named with its clause and the solvers' verdict, printed as KNOWN-FINDING; they are not proved and not counted as proved; the failing input on the real code is the replay named in the KNOWN_FINDINGS.txt entry). obligations_generated is the number before that subtraction. Any other failed obligation stays in obligations, is not in discharged, and is a VIOLATION.",
			"checker_cmd":               fmt.Sprintf("bin/govc check %s --tier %s  (VC generation from go/ssa of %s; per obligation: z3-new -in -smt2 | /usr/bin/z3 -in -smt2 | cvc5 --lang=smt2, first unsat wins, %ds)", prop, tier, repo, timeout),
			"trusted_base":              trusted,
			"functions_under_contract":  fnReports,
			"per_obligation":            oblReports,
			"vacuity_covers":            totalCover,
			"solver_time_s":             float64(solverMs) / 1000,
			"load_time_s":               loadS,
			"known_findings_seen":       knownSeen,
			"not_decided":               ps.NotDecided,
			"bounded":                   ps.Bounded,
			"bounded_stand_ins":         standInReports,
			"selftest":                  selfTest,
			"samples":                   samples,
			"contract_files":            p.CS.Files,
		},
	}
	out, _ := json.MarshalIndent(ev, "", " ")
	_ = os.WriteFile(evPath, out, 0o644)
	kfNote := ""
	if len(kfObls) > 0 {
		kfNote = fmt.Sprintf(" (+%d generated obligation(s) failing as listed known findings, not counted)", len(kfObls))
	}
	fmt.Printf("%s %s: %d/%d obligations discharged%s, %d functions, %d covers, %.1fs\n", prop, tier, totalDis, totalObl, kfNote, len(fnReports), totalCover, time.Since(t0).Seconds())
	return exit
}

func fullName(p *Prog, short string) string {
	// short: "middleware/header.skipSpace", "(*client.Runtime).selectScheme", "runtime.HasBody" (root package)
	mod := p.ModPath
	switch {
	case strings.HasPrefix(short, "(*"):
		return "(*" + qualPkg(mod, short[2:])
	case strings.HasPrefix(short, "("):
		return "(" + qualPkg(mod, short[1:])
	}
	return qualPkg(mod, short)
}

func qualPkg(mod, s string) string {
	if strings.HasPrefix(s, "runtime.") {
		return mod + "." + s[len("runtime."):]
	}
	return mod + "/" + s
}

// writeReplay writes the replay file for the first failed obligation (and a
// summary of the others). It returns whether a failing input was reproduced on
// the real code.
func writeReplay(p *Prog, prop, dir string, first failure, all []failure, repo string, timeout int) (path string, replayed bool) {
	path = filepath.Join(dir, fileSafe(first.obl.Name)+".txt")
	defer func() {
		// a problem while extracting a counterexample must not hide the violation itself
		if r := recover(); r != nil {
			_ = os.WriteFile(path, []byte(fmt.Sprintf("property: %s\nfailed obligation: %s\nclause: %s\n(counterexample extraction failed: %v)\n", prop, first.obl.Name, first.obl.Desc, r)), 0o644)
			replayed = false
		}
	}()
	var b strings.Builder
	fmt.Fprintf(&b, "property: %s\nfailed obligation: %s\nkind: %s\nclause: %s\nstatus: %s (solver %s, %d ms)\n", prop, first.obl.Name, first.obl.Kind, first.obl.Desc, first.reason, first.obl.Solver, first.obl.Ms)
	fmt.Fprintf(&b, "meaning: the verifier could not prove this obligation from the current source of %s; it was provable on the tree the contracts were written for.\n\n", first.obl.Fn)
	if first.vc != nil {
		q := first.vc.query(first.obl, first.vc.prelude())
		qpath := filepath.Join(dir, fileSafe(first.obl.Name)+".smt2")
		_ = os.WriteFile(qpath, []byte(q), 0o644)
		fmt.Fprintf(&b, "query: %s\n", qpath)
		model, ok := findModel(first.vc, first.obl, timeout)
		if ok {
			fmt.Fprintf(&b, "\nverifier counterexample (state at the cut point of the failed obligation):\n%s\n", model)
			rp, out, done := tryReplay(p, first, model, dir, repo)
			if rp != "" {
				fmt.Fprintf(&b, "\nreplay test: %s\nreplay output:\n%s\n", rp, out)
			}
			replayed = done
		} else {
			fmt.Fprintf(&b, "\nno model: all solvers answered unknown/timeout (quantified goal)\n")
		}
	}
	fmt.Fprintf(&b, "\nall failed obligations of this run:\n")
	for _, f := range all {
		fmt.Fprintf(&b, "  %s  [%s]  %s\n", f.obl.Name, f.reason, f.obl.Desc)
	}
	_ = os.WriteFile(path, []byte(b.String()), 0o644)
	return path, replayed
}

// lemmaVC builds the single obligation of a lemma: the formula is evaluated in the
// scope of its package (constants, globals at an arbitrary state) and must be valid.
func lemmaVC(p *Prog, label string) (*FuncVC, error) {
	for _, l := range p.CS.Lemmas {
		if l.Name != label {
			continue
		}
		sp := p.SSAPkgs[l.Pkg]
		if sp == nil && l.Pkg == "" {
			// a lemma of a spec file: any package of the repository provides the scope
			for _, path := range sortedKeys(p.SSAPkgs) {
				if p.inRepoPkg(p.SSAPkgs[path].Pkg) {
					sp = p.SSAPkgs[path]
					break
				}
			}
		}
		if sp == nil {
			return nil, fmt.Errorf("package %s of lemma %s is not loaded", l.Pkg, label)
		}
		// any function of the package provides the naming scope
		var fn *ssa.Function
		for _, m := range sp.Members {
			if f, ok := m.(*ssa.Function); ok && f.Blocks != nil && (fn == nil || f.Name() < fn.Name()) {
				fn = f
			}
		}
		if fn == nil {
			return nil, fmt.Errorf("no function in package %s", l.Pkg)
		}
		vc := NewFuncVC(p, fn, &Contract{Pkg: sp.Pkg.Path(), Loops: map[int]*LoopSpec{}, Opaque: map[string]bool{}})
		vc.Name = "lemma"
		var err error
		func() {
			defer func() {
				if r := recover(); r != nil {
					err = fmt.Errorf("%v", r)
				}
			}()
			vc.comp("alloc", arraySort(SInt, SBool), false)
			vc.comp("escaped", arraySort(SInt, SBool), false)
			vc.comp("clock", SInt, false)
			vc.entryState = vc.newState(stEntry, nil)
			vc.cur = vc.entryState
			vc.reach[nil] = tTrue
			env := vc.newEnv(vc.entryState, vc.entryState)
			env.callee = true
			env.calleeCon = vc.C
			f := vc.evalGoal(env, l.Clause)
			vc.oblige("lemma", "lemma."+label, tTrue, f, l.Clause.Src)
		}()
		return vc, err
	}
	return nil, fmt.Errorf("lemma %s not found in the contract files", label)
}

// runStandIn runs one bounded stand-in with `go test -overlay` on the working tree.
func runStandIn(vdir, repo, tier string, seed int, si StandIn) (map[string]interface{}, string, bool) {
	rep := map[string]interface{}{"name": si.Name, "bound": si.Bound, "label": "bounded (not proved)", "harness": filepath.Join("harness", si.File)}
	tmp, err := os.MkdirTemp("", "govc-standin")
	if err != nil {
		rep["error"] = err.Error()
		return rep, err.Error(), false
	}
	defer os.RemoveAll(tmp)
	ov := filepath.Join(tmp, "overlay.json")
	target := filepath.Join(repo, si.Dir, "zz_govc_standin_test.go")
	_ = os.WriteFile(ov, []byte(fmt.Sprintf(`{"Replace": {%q: %q}}`, target, filepath.Join(vdir, "harness", si.File))), 0o644)
	ctx, cancel := context.WithTimeout(context.Background(), 20*time.Minute)
	defer cancel()
	cmd := exec.CommandContext(ctx, "go", "test", "-v", "-overlay", ov, "-vet=off", "-timeout", "15m", "-count=1", "-run", "^"+si.Run+"$", "./"+si.Dir)
	cmd.Dir = repo
	cmd.Env = append(os.Environ(), "GOFLAGS=-mod=mod", "GOPROXY=off", "GOSUMDB=off", "GOTOOLCHAIN=local", "VERIF_TIER="+tier, fmt.Sprintf("VERIF_SEED=%d", seed))
	t0 := time.Now()
	outb, err := cmd.CombinedOutput()
	out := string(outb)
	rep["wall_s"] = time.Since(t0).Seconds()
	ok := err == nil && strings.Contains(out, "GOVC-STANDIN name=")
	for _, l := range strings.Split(out, "\n") {
		if strings.HasPrefix(l, "GOVC-STANDIN name=") {
			rep["result"] = strings.TrimSpace(l)
		}
	}
	rep["ok"] = ok
	return rep, out, ok
}
