package main

// Evaluation of contract expressions to SMT terms.

import (
	"fmt"
	"os"
	"regexp"
	"math/big"
	"go/constant"
	"go/token"
	"go/types"
	"strings"

	"golang.org/x/tools/go/ssa"
)

// CVal is a contract-level value: an SMT term with (optionally) its Go type.
type CVal struct {
	T      Term
	Typ    types.Type // nil for purely logical values
	Loc    *Loc       // statically located pointer (address of field/element)
	IsNil  bool       // the untyped nil literal
	SRef   bool       // T is the address of a struct object of type Typ (not a datatype value)
	IsCell bool       // T is the address of a closure cell holding a value of type Typ's element
	Suffix string     // component suffix of a cell that is a protected local of the current function
	Pkg    *types.Package
	Lit    *string // string literal (for content-expanded comparisons)
	ElemTyp types.Type // element type of a raw element row (elems(x))
}

type Env struct {
	vc        *FuncVC
	st, old   *State
	vars      map[string]*CVal
	loop      *loopInfo
	phiEdge   int // -1: header constants; >=0: operand on that predecessor edge of loop.header
	results   []*Val
	callee    bool
	calleeSig *types.Signature
	calleeFn  *ssa.Function
	calleeCon *Contract
	calleeName string
	logPrefix string
	depth     int
	logSt     *State // state in which call-log components are read (nil: st)
	goal      bool // the formula is being proved (true) or assumed (false)
	pol       int  // polarity of the current subformula: +1, -1, 0 (unknown)
	block     *ssa.BasicBlock // where local variable names are resolved (nil: the current block); set by before()/after()
	split     bool         // directly inside an outermost assumed universal (Skolem form stated separately)
	univ      []univBinder // enclosing assumed universal binders (for Skolem functions)
	noSkolem  bool         // some enclosing quantifier is not an assumed universal
	atInstr   ssa.Instruction // set with block by before()/after(): names are resolved as of this instruction (assignments earlier in its block count)
	noLocals  bool         // inside before()/after() of a site no path to here has executed: local names denote unconstrained values
	fieldHint string       // the identifier being resolved is the base of a selection of this field (tells same-named locals apart)
}

// univBinder is a universally quantified variable of an assumed formula.
type univBinder struct {
	name string
	t    Term
}

// skolemFn is the Skolem function of an assumed existential nested in universals.
type skolemFn struct {
	fn    []string // one function symbol per existential binder
	names []string // names of the enclosing universal binders (the arguments)
	sorts []string
}

func (vc *FuncVC) newEnv(st, old *State) *Env {
	return &Env{vc: vc, st: st, old: old, vars: map[string]*CVal{}, phiEdge: -1}
}

func (e *Env) child() *Env {
	n := *e
	n.vars = map[string]*CVal{}
	for k, v := range e.vars {
		n.vars[k] = v
	}
	return &n
}

// evalGoal evaluates a clause that is about to be proved; evalBool one that is assumed.
func (vc *FuncVC) evalGoal(env *Env, c *Clause) Term {
	n := *env
	n.goal = true
	n.pol = 1
	return vc.evalBool0(&n, c)
}

func (vc *FuncVC) evalBool(env *Env, c *Clause) Term {
	n := *env
	n.goal = false
	n.pol = 1
	return vc.evalBool0(&n, c)
}

func (vc *FuncVC) evalBool0(env *Env, c *Clause) Term {
	defer func() {
		if r := recover(); r != nil {
			panic(fmt.Errorf("%s:%d: in %q: %v", c.File, c.Line, c.Src, r))
		}
	}()
	v := vc.eval(env, c.E)
	if v.T.Sort != SBool {
		panic(fmt.Errorf("clause is not boolean (sort %s)", v.T.Sort))
	}
	return v.T
}

func (vc *FuncVC) scopeFn(env *Env) *ssa.Function {
	if env.callee {
		return env.calleeFn
	}
	return vc.Fn
}

func (vc *FuncVC) scopePkg(env *Env) *types.Package {
	if env.callee {
		if env.calleeFn != nil && env.calleeFn.Pkg != nil {
			return env.calleeFn.Pkg.Pkg
		}
		if env.calleeCon != nil && env.calleeCon.Pkg != "" {
			if sp := vc.P.SSAPkgs[env.calleeCon.Pkg]; sp != nil {
				return sp.Pkg
			}
		}
		return nil
	}
	if vc.Fn.Pkg != nil {
		return vc.Fn.Pkg.Pkg
	}
	if vc.Fn.Parent() != nil && vc.Fn.Parent().Pkg != nil {
		return vc.Fn.Parent().Pkg.Pkg
	}
	return nil
}

func (vc *FuncVC) fromVal(v *Val, t types.Type) *CVal {
	cv := &CVal{T: v.T, Typ: t}
	if v.Loc != nil && v.T.S == "" {
		cv.Loc = v.Loc
	}
	return cv
}

// lookupIdent resolves a name in a contract expression.
func (vc *FuncVC) lookupIdent(env *Env, name string) *CVal {
	if v, ok := env.vars[name]; ok {
		if v.IsCell {
			// closure cell: the identifier denotes its content
			elem := v.Typ.Underlying().(*types.Pointer).Elem()
			if isStruct(elem) {
				return &CVal{T: v.T, Typ: elem, SRef: true}
			}
			return &CVal{T: Select(env.st.get(vc.cellComp(elem, v.Suffix)), v.T, vc.sortOf(elem)), Typ: elem}
		}
		return v
	}
	// loop-carried variables
	for li := env.loop; li != nil; li = li.parent {
		for _, in := range li.header.Instrs {
			ph, ok := in.(*ssa.Phi)
			if !ok {
				break
			}
			if ph.Comment == name {
				if li == env.loop && env.phiEdge >= 0 {
					return vc.fromVal(vc.val(ph.Edges[env.phiEdge]), ph.Type())
				}
				return vc.fromVal(vc.val(ph), ph.Type())
			}
		}
	}
	// results
	if env.results != nil {
		var sig *types.Signature
		var con *Contract
		if env.callee {
			sig, con = env.calleeSig, env.calleeCon
		} else {
			sig, con = vc.Fn.Signature, vc.C
		}
		names := resultNames(con, sig)
		for i, n := range names {
			if n == name && n != "" && n != "_" && i < len(env.results) {
				return vc.fromVal(env.results[i], sig.Results().At(i).Type())
			}
		}
		if name == "result" && len(env.results) >= 1 {
			return vc.fromVal(env.results[0], sig.Results().At(0).Type())
		}
		if strings.HasPrefix(name, "result") {
			var i int
			if _, err := fmt.Sscanf(name, "result%d", &i); err == nil && i < len(env.results) {
				return vc.fromVal(env.results[i], sig.Results().At(i).Type())
			}
		}
	}
	if !env.callee {
		fn := vc.Fn
		// names bound by the source (DebugRef) that dominate the loop header
		if env.loop != nil {
			if v := vc.debugValue(name, env.loop.header, env.st); v != nil {
				if os.Getenv("GOVC_DEBUG") != "" {
					fmt.Fprintf(os.Stderr, "lookup %s via debugValue at block %d -> %s\n", name, env.loop.header.Index, v.T.S)
				}
				return v
			}
		}
		for _, p := range fn.Params {
			if p.Name() == name || p.Name()+"0" == name {
				return vc.fromVal(vc.val(p), p.Type())
			}
		}
		for _, fv := range fn.FreeVars {
			if fv.Name() == name {
				elem := fv.Type().Underlying().(*types.Pointer).Elem()
				if t, ok := vc.immutableCell(fv); ok {
					return &CVal{T: t, Typ: elem}
				}
				ref := vc.val(fv).T
				if isStruct(elem) {
					return &CVal{T: ref, Typ: elem, SRef: true}
				}
				return &CVal{T: Select(env.st.get(vc.cellComp(elem, "")), ref, vc.sortOf(elem)), Typ: elem}
			}
		}
		if env.loop == nil && !env.noLocals {
			// outside loops allow DebugRef names that dominate the current block
			blk := vc.curBlock
			if env.block != nil {
				blk = env.block
			}
			vc.nameLimit = env.atInstr
			v := vc.debugValue(name, blk, env.st)
			vc.nameLimit = nil
			if v != nil {
				return v
			}
		}
	}
	// package scope
	if pkg := vc.scopePkg(env); pkg != nil {
		if obj := pkg.Scope().Lookup(name); obj != nil {
			if cv := vc.objValue(env, obj); cv != nil {
				return cv
			}
		}
		for _, imp := range pkg.Imports() {
			if imp.Name() == name {
				return &CVal{Pkg: imp}
			}
		}
	}
	if name == "mappos" || name == "mapcard" {
		if it, names := vc.mapRangeOf(env.loop); it != nil {
			if name == "mappos" {
				return &CVal{T: env.st.get(it.comp), Typ: types.Typ[types.Int]}
			}
			return &CVal{T: names.n, Typ: types.Typ[types.Int]}
		}
	}
	if p := vc.knownPkg(name); p != nil {
		return &CVal{Pkg: p}
	}
	if (env.goal || env.results != nil) && !env.callee && len(vc.debugRefs[name]) > 0 {
		// a local variable of the function that does not exist (yet) at this point: in a
		// formula to be proved it is left unconstrained, which can only make the proof harder
		d := vc.debugRefs[name][0]
		typeOf := func(d *ssa.DebugRef) types.Type {
			t := d.X.Type()
			if d.IsAddr {
				t = t.Underlying().(*types.Pointer).Elem()
			}
			return t
		}
		key := name
		if env.fieldHint != "" {
			// several locals of this name (one per case of a switch, say): the one whose type has the selected field
			for _, c := range vc.debugRefs[name] {
				t := typeOf(c)
				if p, ok := t.Underlying().(*types.Pointer); ok {
					t = p.Elem()
				}
				if st, ok := t.Underlying().(*types.Struct); ok {
					found := false
					for i := 0; i < st.NumFields(); i++ {
						if st.Field(i).Name() == env.fieldHint {
							found = true
						}
					}
					if found {
						d = c
						key = name + "!" + typeOf(c).String()
						break
					}
				}
			}
		}
		t := typeOf(d)
		if !isStruct(t) {
			if vc.undefVars == nil {
				vc.undefVars = map[string]Term{}
			}
			c, ok := vc.undefVars[key]
			if !ok {
				c = vc.declareGlobal("undef!"+key, vc.sortOf(t))
				vc.undefVars[key] = c
			}
			return &CVal{T: c, Typ: t}
		}
	}
	panic(fmt.Errorf("unknown identifier %q", name))
}

func (vc *FuncVC) knownPkg(name string) *types.Package {
	for path, sp := range vc.P.SSAPkgs {
		if sp.Pkg.Name() == name && !strings.Contains(path, "/internal/") {
			return sp.Pkg
		}
	}
	for _, sp := range vc.P.SSA.AllPackages() {
		if sp.Pkg.Path() == name || (sp.Pkg.Name() == name && !strings.Contains(sp.Pkg.Path(), "/")) {
			return sp.Pkg
		}
	}
	return nil
}

func (vc *FuncVC) objValue(env *Env, obj types.Object) *CVal {
	switch o := obj.(type) {
	case *types.Const:
		switch o.Val().Kind() {
		case constant.Int:
			return &CVal{T: BigLit(bigOf(o.Val())), Typ: o.Type()}
		case constant.String:
			s := constant.StringVal(o.Val())
			return &CVal{T: vc.strLit(s), Typ: o.Type(), Lit: &s}
		case constant.Bool:
			if constant.BoolVal(o.Val()) {
				return &CVal{T: tTrue, Typ: o.Type()}
			}
			return &CVal{T: tFalse, Typ: o.Type()}
		}
	case *types.Func:
		// a package-level function used as a value
		sp := vc.P.SSA.Package(o.Pkg())
		if sp == nil {
			return nil
		}
		if fn := sp.Func(o.Name()); fn != nil {
			return vc.fromVal(vc.val(fn), fn.Type())
		}
		return nil
	case *types.Var:
		sp := vc.P.SSA.Package(o.Pkg())
		if sp == nil {
			return nil
		}
		g, ok := sp.Members[o.Name()].(*ssa.Global)
		if !ok {
			return nil
		}
		gv := vc.globalAddr(g)
		elem := g.Type().(*types.Pointer).Elem()
		if gv.Loc != nil {
			return &CVal{T: vc.loadLoc(env.st, gv.Loc), Typ: elem}
		}
		if isStruct(elem) {
			return &CVal{T: gv.T, Typ: elem, SRef: true}
		}
		// global array: value is its address
		return &CVal{T: gv.T, Typ: g.Type()}
	}
	return nil
}

// debugValue finds the SSA value the source variable `name` holds at block b:
// the closest DebugRef (not an address) in a block dominating b.
func (vc *FuncVC) debugValue(name string, b *ssa.BasicBlock, st *State) *CVal {
	if b == nil {
		return nil
	}
	limit := vc.nameLimit
	if limit != nil && limit.Block() != b {
		limit = nil
	}
	var best *ssa.DebugRef
	// an address-taken local variable: its address is the allocation, valid wherever
	// the allocation dominates
	for _, d := range vc.debugRefs[name] {
		if a, ok := d.X.(*ssa.Alloc); ok && d.IsAddr && (a.Block() == b || a.Block().Dominates(b)) {
			if _, done := vc.vals[a]; done {
				elem := a.Type().Underlying().(*types.Pointer).Elem()
				if isStruct(elem) {
					return &CVal{T: vc.val(a).T, Typ: elem, SRef: true, Suffix: vc.localSuffix(a)}
				}
				return &CVal{T: vc.load(st, a), Typ: elem}
			}
		}
	}
	// single-valued variable: every use (not the declaring occurrence, whose DebugRef can
	// predate the initialising store) sees the same SSA value, and it is defined above b
	// (variables of the same name are told apart by their declaration)
	{
		type cand struct {
			single  ssa.Value
			uniform bool
		}
		byObj := map[types.Object]*cand{}
		var order []types.Object
		for _, d := range vc.debugRefs[name] {
			if d.IsAddr || isDeclaringRef(d) {
				continue
			}
			o := d.Object()
			c := byObj[o]
			if c == nil {
				c = &cand{uniform: true}
				byObj[o] = c
				order = append(order, o)
			}
			if c.single == nil {
				c.single = d.X
			} else if c.single != d.X {
				c.uniform = false
			}
		}
		var bestSingle ssa.Value
		ambiguous := false
		for _, o := range order {
			c := byObj[o]
			if os.Getenv("GOVC_DEBUG") != "" && c.single != nil {
				fmt.Fprintf(os.Stderr, "debugValue %s at block %d: object@%v single %s uniform %v\n", name, b.Index, vc.Fn.Prog.Fset.Position(o.Pos()).Line, c.single.Name(), c.uniform)
			}
			if c.single == nil || !c.uniform {
				continue
			}
			in, ok := c.single.(ssa.Instruction)
			if ok && !(in.Block() == b || in.Block().Dominates(b)) {
				continue
			}
			if _, done := vc.vals[c.single]; !done && ok {
				continue
			}
			// the variable must be in scope at b: its declaration precedes and encloses b's position
			if o != nil && o.Parent() != nil && b.Instrs != nil {
				if pos := blockPos(b); pos.IsValid() && !(o.Parent().Pos() <= pos && pos <= o.Parent().End()) {
					continue
				}
			}
			if os.Getenv("GOVC_DEBUG") != "" {
				fmt.Fprintf(os.Stderr, "debugValue %s at block %d: candidate %s (%s) obj@%v\n", name, b.Index, c.single.Name(), c.single.Type(), o.Pos())
			}
			if bestSingle != nil && bestSingle != c.single {
				ambiguous = true
			}
			bestSingle = c.single
		}
		if bestSingle != nil && !ambiguous {
			return vc.fromVal(vc.val(bestSingle), bestSingle.Type())
		}
	}
	for _, d := range vc.debugRefs[name] {
		db := d.Block()
		if isDeclaringRef(d) {
			continue
		}
		if db == b {
			// the same block: only what precedes the instruction the name is resolved at
			if limit == nil || instrIndex(d) >= instrIndex(limit) {
				continue
			}
		} else if !db.Dominates(b) {
			continue
		}
		// a variable of the same name declared in another scope (another case of a switch) is not this one
		if o := d.Object(); o != nil && o.Parent() != nil && b.Instrs != nil {
			if pos := blockPos(b); pos.IsValid() && !(o.Parent().Pos() <= pos && pos <= o.Parent().End()) {
				continue
			}
		}
		if best == nil || best.Block().Dominates(db) {
			// later in dominator order, or later in the same block
			if best != nil && best.Block() == db {
				if instrIndex(d) < instrIndex(best) {
					continue
				}
			}
			best = d
		}
	}
	// a phi named like the variable in a dominating block (or b itself) that is
	// at least as close as the DebugRef holds the current value
	var bestPhi *ssa.Phi
	for _, blk := range vc.Fn.Blocks {
		if blk != b && !blk.Dominates(b) {
			continue
		}
		for _, in := range blk.Instrs {
			ph, ok := in.(*ssa.Phi)
			if !ok {
				break
			}
			if ph.Comment == name && (bestPhi == nil || bestPhi.Block().Dominates(blk)) {
				bestPhi = ph
			}
		}
	}
	if bestPhi != nil && (best == nil || (best.Block() != bestPhi.Block() && best.Block().Dominates(bestPhi.Block())) || (best.Block() == bestPhi.Block() && limit == nil)) {
		if _, ok := vc.vals[bestPhi]; ok {
			return vc.fromVal(vc.val(bestPhi), bestPhi.Type())
		}
	}
	if best == nil {
		return nil
	}
	if best.IsAddr {
		elem := best.X.Type().Underlying().(*types.Pointer).Elem()
		if isStruct(elem) {
			return &CVal{T: vc.val(best.X).T, Typ: elem, SRef: true, Suffix: vc.localSuffix(best.X)}
		}
		return &CVal{T: vc.load(st, best.X), Typ: elem}
	}
	if os.Getenv("GOVC_DEBUG") != "" {
		for _, d := range vc.debugRefs[name] {
			fmt.Fprintf(os.Stderr, "  ref %s in block %d idx %d X=%s addr=%v\n", name, d.Block().Index, instrIndex(d), d.X.Name(), d.IsAddr)
		}
		fmt.Fprintf(os.Stderr, "debugValue %s at block %d: X=%s (%T)\n", name, b.Index, best.X.Name(), best.X)
	}
	return vc.fromVal(vc.val(best.X), best.X.Type())
}

// isDeclaringRef: the DebugRef of the identifier that declares the variable (x := …, var x …).
func isDeclaringRef(d *ssa.DebugRef) bool {
	obj := d.Object()
	return obj != nil && d.Expr != nil && d.Expr.Pos() == obj.Pos()
}

func instrIndex(in ssa.Instruction) int {
	for i, x := range in.Block().Instrs {
		if x == in {
			return i
		}
	}
	return -1
}

func (vc *FuncVC) structRefOf(v *CVal) (ref Term, st types.Type, ok bool) {
	if v.Typ == nil {
		return Term{}, nil, false
	}
	if v.SRef {
		return v.T, v.Typ, true
	}
	if p, isPtr := v.Typ.Underlying().(*types.Pointer); isPtr && isStruct(p.Elem()) {
		return v.T, p.Elem(), true
	}
	return Term{}, nil, false
}

func nilFor(sort string) Term {
	switch sort {
	case SIface:
		return T("nil_iface", SIface)
	case SSlice:
		return T("nil_slice", SSlice)
	}
	return IntLit(0)
}

func (vc *FuncVC) qualifiedName(e Expr) (string, bool) {
	switch x := e.(type) {
	case *EIdent:
		return x.Name, true
	case *EField:
		if b, ok := vc.qualifiedName(x.X); ok {
			return b + "." + x.Name, true
		}
	}
	return "", false
}

func (vc *FuncVC) eval(env *Env, e Expr) *CVal {
	switch x := e.(type) {
	case *EInt:
		return &CVal{T: BigLit(x.V)}
	case *EReal:
		return &CVal{T: T(x.V, SReal)}
	case *EBool:
		if x.V {
			return &CVal{T: tTrue}
		}
		return &CVal{T: tFalse}
	case *EStr:
		s := x.V
		return &CVal{T: vc.strLit(s), Typ: types.Typ[types.String], Lit: &s}
	case *ENil:
		return &CVal{IsNil: true, T: IntLit(0)}
	case *EIdent:
		return vc.lookupIdent(env, x.Name)
	case *ECond:
		nc := *env
		nc.pol = 0
		c := vc.eval(&nc, x.C)
		a, b := vc.eval(env, x.A), vc.eval(env, x.B)
		a, b = vc.unifyNil(a, b)
		return &CVal{T: Ite(c.T, a.T, b.T), Typ: a.Typ}
	case *EUnary:
		if x.Op == "!" {
			n := *env
			n.pol = -env.pol
			return &CVal{T: Not(vc.eval(&n, x.X).T)}
		}
		v := vc.eval(env, x.X)
		switch x.Op {
		case "-":
			return &CVal{T: T(app("-", v.T), v.T.Sort), Typ: v.Typ}
		case "*":
			if v.Loc != nil {
				return &CVal{T: vc.loadLoc(env.st, v.Loc), Typ: v.Loc.Typ}
			}
			p, ok := v.Typ.Underlying().(*types.Pointer)
			if !ok {
				panic(fmt.Errorf("* applied to non-pointer"))
			}
			if isStruct(p.Elem()) {
				return &CVal{T: v.T, Typ: p.Elem(), SRef: true}
			}
			return &CVal{T: Select(env.st.get(vc.cellComp(p.Elem(), "")), v.T, vc.sortOf(p.Elem())), Typ: p.Elem()}
		}
	case *EBinary:
		return vc.evalBinary(env, x)
	case *EQuant:
		return vc.evalQuant(env, x)
	case *EField:
		return vc.evalField(env, x)
	case *EIndex:
		return vc.evalIndex(env, x)
	case *ESlice:
		return vc.evalSlice(env, x)
	case *ECall:
		return vc.evalCall(env, x)
	}
	panic(fmt.Errorf("cannot evaluate %T", e))
}

func (vc *FuncVC) binderSort(t string) (string, types.Type) {
	switch t {
	case "int":
		return SInt, types.Typ[types.Int]
	case "string":
		return SStr, types.Typ[types.String]
	case "bool":
		return SBool, types.Typ[types.Bool]
	case "real", "float64":
		return SReal, types.Typ[types.Float64]
	case "ref":
		return SInt, nil
	case "iface":
		return SIface, nil
	case "byte":
		return SInt, types.Typ[types.Uint8]
	case "strrow":
		// the element row of a []string backing array (index -> string)
		return arraySort(SInt, SStr), nil
	}
	if typ, ok := vc.tryResolveType(t); ok {
		return vc.sortOf(typ), typ
	}
	panic(fmt.Errorf("unknown binder type %q", t))
}

func (vc *FuncVC) unifyNil(a, b *CVal) (*CVal, *CVal) {
	if a.IsNil && !b.IsNil {
		return &CVal{T: nilFor(b.T.Sort), Typ: b.Typ}, b
	}
	if b.IsNil && !a.IsNil {
		return a, &CVal{T: nilFor(a.T.Sort), Typ: a.Typ}
	}
	return a, b
}

func (vc *FuncVC) evalBinary(env *Env, x *EBinary) *CVal {
	switch x.Op {
	case "&&":
		return &CVal{T: And(vc.eval(env, x.X).T, vc.eval(env, x.Y).T)}
	case "||":
		return &CVal{T: Or(vc.eval(env, x.X).T, vc.eval(env, x.Y).T)}
	case "==>":
		n := *env
		n.pol = -env.pol
		return &CVal{T: Implies(vc.eval(&n, x.X).T, vc.eval(env, x.Y).T)}
	case "<==>":
		n := *env
		n.pol = 0
		return &CVal{T: Eq(vc.eval(&n, x.X).T, vc.eval(&n, x.Y).T)}
	}
	if env.pol != 0 {
		n := *env
		n.pol = 0
		env = &n
	}
	a, b := vc.eval(env, x.X), vc.eval(env, x.Y)
	switch x.Op {
	case "==", "!=":
		var eq Term
		switch {
		case a.IsNil || b.IsNil:
			o := a
			if a.IsNil {
				o = b
			}
			if o.IsNil {
				eq = tTrue
			} else if o.T.Sort == SSlice {
				eq = Eq(T(app("s_arr", o.T), SInt), IntLit(0))
			} else {
				eq = Eq(o.T, nilFor(o.T.Sort))
			}
		case a.T.Sort == SStr && b.Lit != nil:
			eq = vc.strEqLit(a.T, *b.Lit)
		case a.T.Sort == SStr && a.Lit != nil:
			eq = vc.strEqLit(b.T, *a.Lit)
		default:
			if a.SRef && !b.SRef && b.Typ != nil && isStruct(b.Typ) {
				a = &CVal{T: vc.loadStruct(env.st, a.Typ, a.T, a.Suffix), Typ: a.Typ}
			} else if b.SRef && !a.SRef && a.Typ != nil && isStruct(a.Typ) {
				b = &CVal{T: vc.loadStruct(env.st, b.Typ, b.T, b.Suffix), Typ: b.Typ}
			}
			if a.T.Sort != b.T.Sort && !(a.T.Sort == SInt && b.T.Sort == SReal) && !(a.T.Sort == SReal && b.T.Sort == SInt) {
				panic(fmt.Errorf("comparison of %s and %s", a.T.Sort, b.T.Sort))
			}
			if a.SRef && !b.SRef {
				a = &CVal{T: vc.loadStruct(env.st, a.Typ, a.T, a.Suffix), Typ: a.Typ}
			} else if b.SRef && !a.SRef {
				b = &CVal{T: vc.loadStruct(env.st, b.Typ, b.T, b.Suffix), Typ: b.Typ}
			}
			eq = Eq(a.T, b.T)
		}
		if x.Op == "!=" {
			eq = Not(eq)
		}
		return &CVal{T: eq}
	case "<", "<=", ">", ">=":
		return &CVal{T: Cmp(x.Op, a.T, b.T)}
	case "+":
		if a.T.Sort == SStr {
			return &CVal{T: T(app("cat", a.T, b.T), SStr), Typ: a.Typ}
		}
		return &CVal{T: Arith("+", a.T, b.T), Typ: a.Typ}
	case "-", "*":
		return &CVal{T: Arith(x.Op, a.T, b.T), Typ: a.Typ}
	case "/":
		if a.T.Sort == SReal || b.T.Sort == SReal {
			return &CVal{T: T(app("/", ToReal(a.T), ToReal(b.T)), SReal)}
		}
		return &CVal{T: vc.goDiv(a.T, b.T), Typ: a.Typ}
	case "%":
		return &CVal{T: Arith("-", a.T, Arith("*", b.T, vc.goDiv(a.T, b.T))), Typ: a.Typ}
	case "&", "|", "^", "<<", ">>", "&^":
		if x.Op == "&" {
			if n, ok := new(big.Int).SetString(b.T.S, 10); ok {
				if r, ok := bitAndConst(a.T, n); ok {
					return &CVal{T: r, Typ: a.Typ}
				}
			}
			if n, ok := new(big.Int).SetString(a.T.S, 10); ok {
				if r, ok := bitAndConst(b.T, n); ok {
					return &CVal{T: r, Typ: b.Typ}
				}
			}
		}
		if n, ok := new(big.Int).SetString(b.T.S, 10); ok && n.IsInt64() && n.Int64() < 63 && (x.Op == "<<" || x.Op == ">>") {
			p := BigLit(new(big.Int).Lsh(big.NewInt(1), uint(n.Int64())))
			if x.Op == "<<" {
				return &CVal{T: Arith("*", a.T, p), Typ: a.Typ}
			}
			return &CVal{T: T(app("div", a.T, p), SInt), Typ: a.Typ}
		}
		name := map[string]string{"&": "bitand", "|": "bitor", "^": "bitxor", "<<": "shl", ">>": "shr", "&^": "bitandnot"}[x.Op]
		f := vc.declFun(name, []string{SInt, SInt}, SInt)
		return &CVal{T: T(app(f, a.T, b.T), SInt), Typ: a.Typ}
	}
	panic(fmt.Errorf("unknown operator %s", x.Op))
}

func (vc *FuncVC) evalField(env *Env, x *EField) *CVal {
	// package-qualified names
	if id, ok := x.X.(*EIdent); ok {
		if _, bound := env.vars[id.Name]; !bound {
			base := vc.tryLookup(env, id.Name)
			if base != nil && base.Pkg != nil {
				obj := base.Pkg.Scope().Lookup(x.Name)
				if obj == nil {
					panic(fmt.Errorf("%s.%s not found", id.Name, x.Name))
				}
				if cv := vc.objValue(env, obj); cv != nil {
					return cv
				}
				panic(fmt.Errorf("%s.%s is not a constant or variable", id.Name, x.Name))
			}
		}
	}
	benv := env
	if _, ok := x.X.(*EIdent); ok {
		c := *env
		c.fieldHint = x.Name
		benv = &c
	}
	base := vc.eval(benv, x.X)
	if ref, st, ok := vc.structRefOf(base); ok {
		si := vc.structOf(st)
		sfx := ""
		if base.SRef {
			sfx = base.Suffix
		}
		for i, f := range si.Fields {
			if f.Name == x.Name {
				if isStruct(f.Type) {
					return &CVal{T: vc.fldRef(si, i, ref), Typ: f.Type, SRef: true, Suffix: sfx}
				}
				return &CVal{T: Select(env.st.get(vc.fieldComp(si, i, sfx)), ref, f.Sort), Typ: f.Type}
			}
		}
		// promoted fields through embedded structs
		for i, f := range si.Fields {
			if si.Typ.Field(i).Embedded() {
				ft := f.Type
				var inner *CVal
				if isStruct(ft) {
					inner = &CVal{T: vc.fldRef(si, i, ref), Typ: ft, SRef: true}
				} else if p, ok := ft.Underlying().(*types.Pointer); ok && isStruct(p.Elem()) {
					inner = &CVal{T: Select(env.st.get(vc.fieldComp(si, i, "")), ref, f.Sort), Typ: ft}
				}
				if inner != nil {
					if r := vc.tryField(env, inner, x.Name); r != nil {
						return r
					}
				}
			}
		}
		if os.Getenv("GOVC_DEBUG") != "" {
			fmt.Fprintf(os.Stderr, "no field: base %s typ %v sref %v block %v loop %v\n", base.T.S, base.Typ, base.SRef, env.block, env.loop != nil)
		}
		panic(fmt.Errorf("type %s has no field %s", st, x.Name))
	}
	if base.Typ != nil && isStruct(base.Typ) {
		si := vc.structOf(base.Typ)
		for i, f := range si.Fields {
			if f.Name == x.Name {
				return &CVal{T: vc.structField(si, base.T, i), Typ: f.Type}
			}
		}
		panic(fmt.Errorf("type %s has no field %s", base.Typ, x.Name))
	}
	panic(fmt.Errorf("field %s of non-struct", x.Name))
}

func (vc *FuncVC) tryField(env *Env, base *CVal, name string) (res *CVal) {
	defer func() {
		if r := recover(); r != nil {
			res = nil
		}
	}()
	n := env.child()
	n.vars["$tmp"] = base
	return vc.evalField(n, &EField{&EIdent{"$tmp"}, name})
}

func (vc *FuncVC) tryLookup(env *Env, name string) (res *CVal) {
	defer func() {
		if r := recover(); r != nil {
			res = nil
		}
	}()
	return vc.lookupIdent(env, name)
}

func (vc *FuncVC) evalIndex(env *Env, x *EIndex) *CVal {
	base := vc.eval(env, x.X)
	idx := vc.eval(env, x.I)
	if base.T.Sort == SStr {
		return &CVal{T: T(app("at", base.T, idx.T), SInt), Typ: types.Typ[types.Uint8]}
	}
	if base.Typ == nil && strings.HasPrefix(base.T.Sort, "(Array Int ") {
		_, es := arrayParts(base.T.Sort)
		return &CVal{T: Select(base.T, idx.T, es), Typ: base.ElemTyp}
	}
	if base.Typ == nil {
		panic(fmt.Errorf("indexing an untyped value"))
	}
	switch u := base.Typ.Underlying().(type) {
	case *types.Slice:
		arr, off := T(app("s_arr", base.T), SInt), T(app("s_off", base.T), SInt)
		i := Arith("+", off, idx.T)
		if isStruct(u.Elem()) {
			return &CVal{T: vc.elemRef(arr, i), Typ: u.Elem(), SRef: true}
		}
		s := vc.sortOf(u.Elem())
		return &CVal{T: Select(Select(env.st.get(vc.elemComp(u.Elem())), arr, arraySort(SInt, s)), i, s), Typ: u.Elem()}
	case *types.Pointer:
		if at, ok := u.Elem().Underlying().(*types.Array); ok {
			if isStruct(at.Elem()) {
				return &CVal{T: vc.elemRef(base.T, idx.T), Typ: at.Elem(), SRef: true}
			}
			s := vc.sortOf(at.Elem())
			return &CVal{T: Select(Select(env.st.get(vc.elemComp(at.Elem())), base.T, arraySort(SInt, s)), idx.T, s), Typ: at.Elem()}
		}
	case *types.Map:
		dn, vn := vc.mapComps(u)
		ks, vs := vc.sortOf(u.Key()), vc.sortOf(u.Elem())
		in := And(Not(Eq(base.T, IntLit(0))), Select(Select(env.st.get(dn), base.T, arraySort(ks, SBool)), idx.T, SBool))
		return &CVal{T: Ite(in, Select(Select(env.st.get(vn), base.T, arraySort(ks, vs)), idx.T, vs), vc.zero(u.Elem())), Typ: u.Elem()}
	}
	panic(fmt.Errorf("cannot index %s", base.Typ))
}

func (vc *FuncVC) evalSlice(env *Env, x *ESlice) *CVal {
	base := vc.eval(env, x.X)
	if base.T.Sort == SStr {
		lo := IntLit(0)
		hi := T(app("len", base.T), SInt)
		if x.Lo != nil {
			lo = vc.eval(env, x.Lo).T
		}
		if x.Hi != nil {
			hi = vc.eval(env, x.Hi).T
		}
		return &CVal{T: T(app("sub", base.T, lo, hi), SStr), Typ: base.Typ}
	}
	if base.T.Sort == SSlice {
		arr, off, ln, cp := T(app("s_arr", base.T), SInt), T(app("s_off", base.T), SInt), T(app("s_len", base.T), SInt), T(app("s_cap", base.T), SInt)
		lo, hi := IntLit(0), ln
		if x.Lo != nil {
			lo = vc.eval(env, x.Lo).T
		}
		if x.Hi != nil {
			hi = vc.eval(env, x.Hi).T
		}
		return &CVal{T: T(app("mk_slice", arr, Arith("+", off, lo), Arith("-", hi, lo), Arith("-", cp, lo)), SSlice), Typ: base.Typ}
	}
	panic(fmt.Errorf("cannot slice %s", base.T.Sort))
}

func (vc *FuncVC) logGet(env *Env, st *State, label, what, sort string) Term {
	return env.logState().get(vc.logComp(env.logPrefix, label, what, sort))
}

func (e *Env) logState() *State {
	if e.logSt != nil {
		return e.logSt
	}
	return e.st
}

func (vc *FuncVC) evalCall(env *Env, x *ECall) *CVal {
	name, ok := vc.qualifiedName(x.Fun)
	if !ok {
		panic(fmt.Errorf("unsupported call target"))
	}
	arg := func(i int) *CVal { return vc.eval(env, x.Args[i]) }
	label := func(i int) string {
		id, ok := x.Args[i].(*EIdent)
		if !ok {
			panic(fmt.Errorf("%s: label expected", name))
		}
		return id.Name
	}
	switch name {
	case "len":
		v := arg(0)
		switch v.T.Sort {
		case SStr:
			return &CVal{T: T(app("len", v.T), SInt)}
		case SSlice:
			return &CVal{T: T(app("s_len", v.T), SInt)}
		}
		if v.Typ != nil {
			if mt, ok := v.Typ.Underlying().(*types.Map); ok {
				dc, _ := vc.mapComps(mt)
				ks := vc.sortOf(mt.Key())
				f := vc.declFun("card!"+ks, []string{arraySort(ks, SBool)}, SInt)
				card := T(app(f, Select(env.st.get(dc), v.T, arraySort(ks, SBool))), SInt)
				return &CVal{T: Ite(Eq(v.T, IntLit(0)), IntLit(0), card)}
			}
			if p, ok := v.Typ.Underlying().(*types.Pointer); ok {
				if at, ok := p.Elem().Underlying().(*types.Array); ok {
					return &CVal{T: IntLit(at.Len())}
				}
			}
		}
		panic(fmt.Errorf("len of %s", v.T.Sort))
	case "cap":
		return &CVal{T: T(app("s_cap", arg(0).T), SInt)}
	case "old":
		// old(e): e's heap reads happen in the entry state; the call log is ghost
		// history of the whole call and is always read in the current state
		n := *env
		if n.logSt == nil {
			n.logSt = env.st
		}
		n.st = env.old
		return vc.eval(&n, x.Args[0])
	case "in":
		k, m := arg(0), arg(1)
		mt, ok := m.Typ.Underlying().(*types.Map)
		if !ok {
			panic(fmt.Errorf("in: second argument is not a map"))
		}
		dc, _ := vc.mapComps(mt)
		ks := vc.sortOf(mt.Key())
		return &CVal{T: And(Not(Eq(m.T, IntLit(0))), Select(Select(env.st.get(dc), m.T, arraySort(ks, SBool)), k.T, SBool))}
	case "int", "byte", "uint8", "int64", "uint32", "uint64", "int32":
		v := arg(0)
		return &CVal{T: v.T, Typ: types.Typ[types.Int]}
	case "real", "float64":
		return &CVal{T: ToReal(arg(0).T), Typ: types.Typ[types.Float64]}
	case "calls":
		return &CVal{T: vc.logGet(env, env.st, label(0), "cnt", "")}
	case "called":
		return &CVal{T: Select(vc.logGet(env, env.st, label(0), "called", SBool), arg(1).T, SBool)}
	case "time":
		return &CVal{T: Select(vc.logGet(env, env.st, label(0), "time", SInt), arg(1).T, SInt)}
	case "captured":
		// captured(L, t, "name"): content of the variable `name` captured by the closure logged under L
		L := label(0)
		fn := vc.closureOf[L]
		if env.callee && env.calleeCon != nil {
			fn = nil
			for _, w := range env.calleeCon.Watches {
				pk, pn := splitWord(w.Pattern)
				if w.Label == L && pk == "closure" {
					for _, cand := range []string{pn, qualify(env.calleeCon.Pkg, pn)} {
						if f := vc.P.Funcs[cand]; f != nil {
							fn = f
						}
					}
				}
			}
		}
		nm, ok := x.Args[2].(*EStr)
		if fn == nil || !ok {
			panic(fmt.Errorf("captured: %s is not a closure watch, or name missing", L))
		}
		for i, fv := range fn.FreeVars {
			if fv.Name() == nm.V {
				comp := fmt.Sprintf("LG!%s%s!a%d", env.logPrefix, L, i)
				if _, ok := vc.comps[comp]; !ok {
					vc.comp(comp, arraySort(SInt, SInt), true)
				}
				ref := Select(env.logState().get(comp), arg(1).T, SInt)
				elem := fv.Type().Underlying().(*types.Pointer).Elem()
				if isStruct(elem) {
					return &CVal{T: ref, Typ: elem, SRef: true}
				}
				suffix := ""
				if mc := vc.closureMC[L]; mc != nil && !env.callee {
					suffix = vc.localSuffix(mc.Bindings[i])
				}
				return &CVal{T: Select(env.st.get(vc.cellComp(elem, suffix)), ref, vc.sortOf(elem)), Typ: elem}
			}
		}
		panic(fmt.Errorf("captured: closure %s does not capture %s", fn.Name(), nm.V))
	case "argv":
		L := label(0)
		i, ok1 := x.Args[2].(*EInt)
		j, ok2 := x.Args[3].(*EInt)
		if !ok1 || !ok2 {
			panic(fmt.Errorf("argv: constant indices expected"))
		}
		comp := fmt.Sprintf("LG!%s%s!a%d_%d", env.logPrefix, L, i.V.Int64(), j.V.Int64())
		sort, ok := vc.comps[comp]
		if !ok && env.callee && env.calleeName != "" {
			if info, found := vc.P.calleeLogInfo(env.calleeName)[fmt.Sprintf("%s!a%d_%d", L, i.V.Int64(), j.V.Int64())]; found {
				vc.comp(comp, info.sort, true)
				vc.logTypes[comp] = info.typ
				sort, ok = info.sort, true
			}
		}
		if !ok {
			panic(fmt.Errorf("argv(%s,…,%d,%d): no such logged variadic element", L, i.V.Int64(), j.V.Int64()))
		}
		_, es := arrayParts(sort)
		return &CVal{T: Select(env.logState().get(comp), arg(1).T, es), Typ: vc.logTypes[comp]}
	case "recv", "arg", "ret":
		L := label(0)
		what := "recv"
		if name != "recv" {
			k, ok := x.Args[2].(*EInt)
			if !ok {
				panic(fmt.Errorf("%s: constant index expected", name))
			}
			what = fmt.Sprintf("%s%d", map[string]string{"arg": "a", "ret": "r"}[name], k.V.Int64())
		}
		comp := "LG!" + env.logPrefix + L + "!" + what
		sort, ok := vc.comps[comp]
		if !ok && env.callee && env.calleeName != "" {
			if info, found := vc.P.calleeLogInfo(env.calleeName)[L+"!"+what]; found {
				vc.comp(comp, info.sort, true)
				vc.logTypes[comp] = info.typ
				sort, ok = info.sort, true
			}
		}
		if !ok {
			if len(x.Args) > 0 {
				// sort hint as trailing string argument: arg(L, t, k, "Int")
				last := x.Args[len(x.Args)-1]
				if s, isStr := last.(*EStr); isStr {
					vc.comp(comp, arraySort(SInt, s.V), true)
					sort = vc.comps[comp]
				}
			}
			if sort == "" {
				panic(fmt.Errorf("%s(%s,…): no matching call seen yet; add a sort hint as last argument", name, L))
			}
		}
		_, es := arrayParts(sort)
		return &CVal{T: Select(env.logState().get(comp), arg(1).T, es), Typ: vc.logTypes[comp]}
	case "mappos", "mapkey", "mapidx", "mapcard":
		// the ghost enumeration of the map ranged over by the innermost enclosing map-range loop
		// (or by the loop given as extra first argument: mappos(outer) is not supported)
		it, names := vc.mapRangeOf(env.loop)
		if it == nil {
			panic(fmt.Errorf("%s: no enclosing range-over-map loop", name))
		}
		ks := vc.sortOf(it.mapType.Key())
		switch name {
		case "mappos":
			return &CVal{T: env.st.get(it.comp), Typ: types.Typ[types.Int]}
		case "mapcard":
			return &CVal{T: names.n, Typ: types.Typ[types.Int]}
		case "mapkey":
			return &CVal{T: T(app(names.keyAt, arg(0).T), ks), Typ: it.mapType.Key()}
		default:
			return &CVal{T: T(app(names.idxOf, arg(0).T), SInt), Typ: types.Typ[types.Int]}
		}
	case "before", "after":
		// before(L, e) / after(L, e): e evaluated in the heap right before / after the call labelled L;
		// before(L, i, e) / after(L, i, e) pick the i-th call site in program order when L has several.
		// (Call sites outside loops; meaningful on paths that execute the site.)
		id, ok := x.Args[0].(*EIdent)
		if !ok || len(x.Args) < 2 || len(x.Args) > 3 {
			panic(fmt.Errorf("%s(L, [i,] e): a watch label and an expression are expected", name))
		}
		sts := vc.callPre[id.Name]
		if name == "after" {
			sts = vc.callPost[id.Name]
		}
		site := 0
		if len(x.Args) == 3 {
			k, ok := x.Args[1].(*EInt)
			if !ok {
				panic(fmt.Errorf("%s(%s, i, e): a constant site index is expected", name, id.Name))
			}
			site = int(k.V.Int64())
			if site < 0 {
				panic(fmt.Errorf("%s(%s, %d, …): bad site index", name, id.Name, site))
			}
		}
		n := *env
		if len(x.Args) == 2 && len(sts) > 1 && !env.callee {
			// several call sites and no index: the heap of whichever site this path executed
			// (meaningful when the label was called once, i.e. under calls(L) == 1)
			key := fmt.Sprintf("join|%s|%s|%d", name, id.Name, len(sts))
			if vc.midStates == nil {
				vc.midStates = map[string]*State{}
			}
			st, ok := vc.midStates[key]
			if !ok {
				st = vc.newState(stJoin, nil)
				for i, s0 := range sts {
					st.preds = append(st.preds, predEdge{vc.callGuard[id.Name][i], s0})
				}
				vc.midStates[key] = st
			}
			n.st = st
			if n.logSt == nil {
				n.logSt = env.st
			}
			return vc.eval(&n, x.Args[1])
		}
		if env.callee {
			// a callee's clause about one of its intermediate heaps: some heap the caller
			// knows nothing about (one per call, label, site and side)
			key := fmt.Sprintf("%s|%s|%s|%d", env.logPrefix, name, id.Name, site)
			if vc.midStates == nil {
				vc.midStates = map[string]*State{}
			}
			st, ok := vc.midStates[key]
			if !ok {
				st = vc.newState(stHavoc, vc.entryState)
				st.havocTotal = true
				st.havocAll = true
				vc.midStates[key] = st
			}
			n.st = st
			if n.logSt == nil {
				n.logSt = env.st
			}
			return vc.eval(&n, x.Args[len(x.Args)-1])
		}
		if len(x.Args) == 3 {
			// the index counts the call sites of L in source order; find the executed record of that site
			stat := vc.staticSites(id.Name)
			if site >= len(stat) {
				panic(fmt.Errorf("%s(%s, %d, …): the watch matches %d call site(s)", name, id.Name, site, len(stat)))
			}
			if os.Getenv("GOVC_DEBUG") != "" {
				for i, in := range stat {
					fmt.Fprintf(os.Stderr, "static site %s %d: %v block %d\n", id.Name, i, vc.Fn.Prog.Fset.Position(in.Pos()), in.Block().Index)
				}
				for i, in := range vc.callInstr[id.Name] {
					fmt.Fprintf(os.Stderr, "dynamic site %s %d: %v block %d\n", id.Name, i, vc.Fn.Prog.Fset.Position(in.Pos()), in.Block().Index)
				}
			}
			dyn := len(sts) // not executed on any path to here
			for j, in := range vc.callInstr[id.Name] {
				if in == stat[site] && j < len(sts) {
					dyn = j
				}
			}
			site = dyn
		}
		if site >= len(sts) {
			// the site comes later in the function: no path to this point has executed it.
			// In a formula to be proved its heap is left unconstrained (which can only make
			// the proof harder); elsewhere this is an error.
			// (the same unconstrained heap is used when the proved formula is assumed afterwards)
			if vc.neverState == nil {
				vc.neverState = vc.newState(stHavoc, vc.entryState)
				vc.neverState.havocTotal = true
				vc.neverState.havocAll = true
			}
			n.st = vc.neverState
			n.noLocals = true
		} else {
			n.st = sts[site]
			if bs := vc.callBlock[id.Name]; site < len(bs) {
				if os.Getenv("GOVC_DEBUG") != "" {
					for i, b := range bs {
						fmt.Fprintf(os.Stderr, "site %s %d: block %d\n", id.Name, i, b.Index)
					}
				}
				n.block = bs[site]
				n.loop = nil
				if is := vc.callInstr[id.Name]; site < len(is) {
					n.atInstr = is[site]
				}
			}
		}
		if n.logSt == nil {
			n.logSt = env.st
		}
		return vc.eval(&n, x.Args[len(x.Args)-1])
	case "inloop":
		// inloop(K, e): e with the iteration names (mapkey, mapidx, mapcard, mappos) of loop K
		k, ok := x.Args[0].(*EInt)
		if !ok || len(x.Args) != 2 {
			panic(fmt.Errorf("inloop(K, e): a loop ordinal and an expression are expected"))
		}
		for _, li := range vc.loops {
			if li.ordinal == int(k.V.Int64()) {
				n := *env
				n.loop = li
				n.phiEdge = -1
				return vc.eval(&n, x.Args[1])
			}
		}
		panic(fmt.Errorf("inloop: no loop %d", k.V.Int64()))
	case "emod", "ediv":
		// Euclidean remainder / quotient (SMT-LIB mod, div): what >> and & with 2^k-1 are on non-negative integers
		op := "mod"
		if name == "ediv" {
			op = "div"
		}
		return &CVal{T: T(app(op, arg(0).T, arg(1).T), SInt), Typ: types.Typ[types.Int]}
	case "dynkind":
		// dynkind(x): the reflect.Kind of the dynamic type of interface value x (0 for nil)
		v := arg(0)
		if v.T.Sort != SIface {
			panic(fmt.Errorf("dynkind: an interface value is expected"))
		}
		f := vc.declFun("kindOfTag", []string{SInt}, SInt)
		return &CVal{T: Ite(Eq(v.T, T("nil_iface", SIface)), IntLit(0), T(app(f, T(app("tagOf", v.T), SInt)), SInt)), Typ: types.Typ[types.Int]}
	case "mapat":
		// mapat(m, k): the value stored under k (unspecified when k is absent; m[k] is the Go
		// read that yields the zero value then). Free of conditionals, hence usable as a trigger.
		m, k := arg(0), arg(1)
		mt, ok := m.Typ.Underlying().(*types.Map)
		if !ok {
			panic(fmt.Errorf("mapat: a map is expected"))
		}
		_, vn := vc.mapComps(mt)
		ks, vs := vc.sortOf(mt.Key()), vc.sortOf(mt.Elem())
		return &CVal{T: Select(Select(env.st.get(vn), m.T, arraySort(ks, vs)), k.T, vs), Typ: mt.Elem()}
	case "outer":
		if env.loop == nil {
			panic(fmt.Errorf("outer() outside a loop invariant"))
		}
		n := *env
		n.loop = env.loop.parent
		n.phiEdge = -1
		return vc.eval(&n, x.Args[0])
	case "strings.HasPrefix", "strings.HasSuffix":
		s0, p0 := arg(0), arg(1)
		return &CVal{T: vc.hasAffix(s0.T, p0.T, p0.Lit, name == "strings.HasSuffix")}
	case "fresh":
		v := arg(0)
		if os.Getenv("GOVC_DEBUG") != "" {
			fmt.Fprintf(os.Stderr, "fresh(%v) -> %s : %s\n", x.Args[0], v.T.S, v.T.Sort)
		}
		ref := v.T
		if v.T.Sort == SSlice {
			ref = T(app("s_arr", v.T), SInt)
		}
		return &CVal{T: And(Not(Eq(ref, IntLit(0))), Not(vc.isAlloc(env.old, ref)))}
	case "implements":
		// implements(x, "pkg.Iface"): the dynamic type of x implements the interface (x non-nil)
		v := arg(0)
		s, ok := x.Args[1].(*EStr)
		if !ok {
			panic(fmt.Errorf("implements: interface name string expected"))
		}
		pkg := ""
		if p := vc.scopePkg(env); p != nil {
			pkg = p.Path()
		}
		t := vc.resolveType(s.V, pkg)
		f := vc.declFun("implements", []string{SInt, SInt}, SBool)
		return &CVal{T: And(Not(Eq(v.T, T("nil_iface", SIface))), T(app(f, T(app("tagOf", v.T), SInt), vc.ifaceID(t)), SBool))}
	case "elems":
		// elems(x): the element row (index -> value) of the backing array of slice x in the current state
		v := arg(0)
		sl, ok := v.Typ.Underlying().(*types.Slice)
		if !ok || isStruct(sl.Elem()) {
			panic(fmt.Errorf("elems: slice of non-struct elements expected"))
		}
		es := vc.sortOf(sl.Elem())
		return &CVal{T: Select(env.st.get(vc.elemComp(sl.Elem())), T(app("s_arr", v.T), SInt), arraySort(SInt, es)), ElemTyp: sl.Elem()}
	case "offof":
		return &CVal{T: T(app("s_off", arg(0).T), SInt)}
	case "arrayof":
		return &CVal{T: T(app("s_arr", arg(0).T), SInt)}
	case "distinctarrays":
		// the backing arrays of the given slices are pairwise different
		var refs []Term
		for i := range x.Args {
			refs = append(refs, T(app("s_arr", arg(i).T), SInt))
		}
		if len(refs) < 2 {
			return &CVal{T: tTrue}
		}
		return &CVal{T: T(app("distinct", refs...), SBool)}
	case "unescaped":
		// unescaped(x): the object x refers to was allocated by this function and has not been handed to other code
		v := arg(0)
		ref := v.T
		if v.T.Sort == SSlice {
			ref = T(app("s_arr", v.T), SInt)
		}
		return &CVal{T: Or(Eq(ref, IntLit(0)), Not(Select(env.st.get("escaped"), vc.baseOf(ref), SBool)))}
	case "allocated":
		v := arg(0)
		ref := v.T
		if v.T.Sort == SSlice {
			ref = T(app("s_arr", v.T), SInt)
		}
		return &CVal{T: vc.isAlloc(env.st, ref)}
	case "typeis":
		v := arg(0)
		s, ok := x.Args[1].(*EStr)
		if !ok {
			panic(fmt.Errorf("typeis: type name string expected"))
		}
		return &CVal{T: And(Not(Eq(v.T, T("nil_iface", SIface))), Eq(T(app("tagOf", v.T), SInt), vc.typeIDByName(s.V)))}
	case "boxof":
		// boxof(v): the interface value holding v (v must carry a Go type)
		v := arg(0)
		if v.Typ == nil {
			panic(fmt.Errorf("boxof: untyped value"))
		}
		t := v.Typ
		if v.SRef {
			panic(fmt.Errorf("boxof: struct object"))
		}
		return &CVal{T: vc.box(v.T, t)}
	case "unboxptr", "unbox":
		// unboxptr(i, "*pkg.T"): the pointer held by interface value i, typed as *pkg.T
		// unbox(i, "T"): the value of (non-struct) type T held by interface value i
		s, ok := x.Args[1].(*EStr)
		if !ok {
			panic(fmt.Errorf("unboxptr: type name string expected"))
		}
		pkg := ""
		if p := vc.scopePkg(env); p != nil {
			pkg = p.Path()
		}
		t := vc.resolveType(s.V, pkg)
		_, unbox := vc.boxFuncs(t)
		return &CVal{T: T(app(unbox, arg(0).T), vc.sortOf(t)), Typ: t}
	case "nonnilptr":
		// nonnilptr(i): the interface value i does not hold a nil pointer
		pv := vc.declFun("ptrval", []string{SIface}, SInt)
		return &CVal{T: Not(Eq(T(app(pv, arg(0).T), SInt), IntLit(0)))}
	case "boxas":
		// boxas(v, "pkg.Type"): the interface value holding v converted to the named type
		v := arg(0)
		s, ok := x.Args[1].(*EStr)
		if !ok {
			panic(fmt.Errorf("boxas: type name string expected"))
		}
		pkg := ""
		if p := vc.scopePkg(env); p != nil {
			pkg = p.Path()
		}
		return &CVal{T: vc.box(v.T, vc.resolveType(s.V, pkg))}
	case "isSub":
		// isSub(x, s): x is a substring of s (exists-free form is not available; uninterpreted)
		f := vc.declFun("isSub", []string{SStr, SStr}, SBool)
		return &CVal{T: T(app(f, arg(0).T, arg(1).T), SBool)}
	}
	// spec macros
	if m, ok := vc.P.CS.Macros[name]; ok {
		if len(m.Params) != len(x.Args) {
			panic(fmt.Errorf("spec %s: %d arguments expected", name, len(m.Params)))
		}
		if m.IsFun {
			var args []*CVal
			for i := range x.Args {
				args = append(args, arg(i))
			}
			return vc.funApp(env, m, args)
		}
		n := env.child()
		if env.depth > 40 {
			panic(fmt.Errorf("spec %s: expansion too deep", name))
		}
		n.depth = env.depth + 1
		for i, p := range m.Params {
			n.vars[p] = arg(i)
		}
		return vc.eval(n, m.Body)
	}
	// logic functions
	if lf, ok := vc.P.CS.Logic[name]; ok {
		var sorts []string
		var ts []Term
		for i, p := range lf.Params {
			s, _ := vc.binderSort(p)
			sorts = append(sorts, s)
			ts = append(ts, arg(i).T)
		}
		rs, rt := vc.binderSort(lf.Result)
		f := vc.declFun("lf!"+name, sorts, rs)
		vc.logicUsed[name] = true
		if len(ts) == 0 {
			return &CVal{T: T(f, rs), Typ: rt}
		}
		return &CVal{T: T(app(f, ts...), rs), Typ: rt}
	}
	// pure functions (assumed library functions, or repo functions declared pure)
	full := name
	if pkg := vc.scopePkg(env); pkg != nil {
		if _, ok := vc.P.CS.Funcs[qualify(pkg.Path(), name)]; ok {
			full = qualify(pkg.Path(), name)
		}
	}
	if _, ok := vc.P.CS.Funcs[full]; !ok && len(x.Args) > 0 {
		// a pure method applied in function style: Base(cell) for (baseCheck).Base
		if a0 := arg(0); a0.Typ != nil {
			for _, cand := range []string{"(" + types.TypeString(a0.Typ, nil) + ")." + name, "(*" + types.TypeString(a0.Typ, nil) + ")." + name} {
				if c, ok := vc.P.CS.Funcs[cand]; ok && c.Pure {
					full = cand
				}
			}
		}
	}
	if con, ok := vc.P.CS.Funcs[full]; ok && con.Pure {
		fn := vc.P.Funcs[full]
		if fn == nil {
			panic(fmt.Errorf("pure function %s not found in the program", full))
		}
		var sorts []string
		var ts []Term
		for i := range x.Args {
			a := arg(i)
			sorts = append(sorts, a.T.Sort)
			ts = append(ts, a.T)
		}
		rt := fn.Signature.Results().At(0).Type()
		f := vc.declFun(fmt.Sprintf("pf!%s!0", full), sorts, vc.sortOf(rt))
		vc.contractUse[full] = true
		if vc.P.CS.Assumed[full] {
			vc.assumedUsed[full] = true
		}
		return &CVal{T: T(app(f, ts...), vc.sortOf(rt)), Typ: rt}
	}
	panic(fmt.Errorf("unknown function %s in contract expression", name))
}

func (vc *FuncVC) typeIDByName(name string) Term {
	// name must be the types.TypeString of the type (full package path), e.g. "*crypto/rsa.PrivateKey"
	id, ok := vc.typeIDs[name]
	if !ok {
		id = len(vc.typeIDs) + 1
		vc.typeIDs[name] = id
	}
	if _, known := vc.concreteTypes[id]; !known {
		if t, ok := vc.tryResolveType(name); ok {
			vc.concreteTypes[id] = t
		}
	}
	return IntLit(int64(id))
}

// evalQuant evaluates a quantifier. Top-level existentials get special care
// (DESIGN §2.2, witness candidates): an assumed existential is skolemised with
// fresh constants, which are remembered under the binder names; an existential
// that has to be proved is offered those constants and the clause's @try hints
// as candidate witnesses (a disjunction that implies the existential).
func (vc *FuncVC) evalQuant(env *Env, x *EQuant) *CVal {
	key := ""
	for _, b := range x.Vars {
		key += b.Name + ","
	}
	hypLike := (!env.goal && env.pol == 1) || (env.goal && env.pol == -1)
	goalLike := (env.goal && env.pol == 1) || (!env.goal && env.pol == -1)
	if !x.Forall && vc.quantDepth == 0 && hypLike {
		n := env.child()
		var tuple []Term
		for _, b := range x.Vars {
			sort, typ := vc.binderSort(b.Type)
			c := vc.fresh("sk!"+b.Name, sort)
			n.vars[b.Name] = &CVal{T: c, Typ: typ}
			tuple = append(tuple, c)
		}
		vc.skolems[key] = append(vc.skolems[key], tuple)
		return &CVal{T: vc.eval(n, x.Body).T}
	}
	if x.Forall && vc.quantDepth == 0 && goalLike && !env.noSkolem {
		// a universal to be proved: prove the body for fresh constants
		n := env.child()
		for _, b := range x.Vars {
			sort, typ := vc.binderSort(b.Type)
			c := vc.fresh("gk!"+b.Name, sort)
			n.vars[b.Name] = &CVal{T: c, Typ: typ}
			if b.Type == "strrow" {
				n.vars[b.Name].ElemTyp = types.Typ[types.String]
			}
		}
		vc.goalSkolemised = true
		return &CVal{T: vc.eval(n, x.Body).T}
	}
	var skolemForm *Term
	if !x.Forall && vc.quantDepth > 0 && hypLike && !env.noSkolem && len(env.univ) > 0 {
		// an assumed existential under assumed universals: also state it with Skolem functions,
		// which are offered as witnesses when the same existential is to be proved
		n := env.child()
		sk := skolemFn{}
		var args []Term
		for _, u := range env.univ {
			sk.names = append(sk.names, u.name)
			sk.sorts = append(sk.sorts, u.t.Sort)
			args = append(args, u.t)
		}
		for _, b := range x.Vars {
			sort, typ := vc.binderSort(b.Type)
			vc.seq++
			f := vc.declFun(fmt.Sprintf("skf!%s!%d", b.Name, vc.seq), sk.sorts, sort)
			sk.fn = append(sk.fn, f)
			n.vars[b.Name] = &CVal{T: T(app(f, args...), sort), Typ: typ}
		}
		vc.skolemFns[key] = append(vc.skolemFns[key], sk)
		vc.quantDepth++
		t := vc.eval(n, x.Body).T
		vc.quantDepth--
		skolemForm = &t
		if env.split && vc.quantDepth == 1 {
			// directly under an outermost assumed universal: that universal is stated twice,
			// once as written and once in Skolem form triggered by the Skolem terms
			for _, f := range sk.fn {
				vc.pendingSk = append(vc.pendingSk, app(f, args...))
			}
			return &CVal{T: t}
		}
	}
	n := env.child()
	n.split = false
	if x.Forall && hypLike && !env.noSkolem {
		n.univ = append([]univBinder{}, env.univ...)
		n.split = vc.quantDepth == 0 && os.Getenv("GOVC_X2") == ""
	} else {
		n.noSkolem = true
	}
	pendingBefore := len(vc.pendingSk)
	var binders []string
	for _, b := range x.Vars {
		vc.seq++
		name := sym(fmt.Sprintf("q!%s!%d", b.Name, vc.seq))
		sort, typ := vc.binderSort(b.Type)
		binders = append(binders, fmt.Sprintf("(%s %s)", name, sort))
		n.vars[b.Name] = &CVal{T: T(name, sort), Typ: typ}
		if b.Type == "strrow" {
			n.vars[b.Name].ElemTyp = types.Typ[types.String]
		}
		if x.Forall && hypLike && !env.noSkolem {
			n.univ = append(n.univ, univBinder{b.Name, T(name, sort)})
		}
	}
	vc.quantDepth++
	body := vc.eval(n, x.Body)
	vc.quantDepth--
	q := "exists"
	if x.Forall {
		q = "forall"
	}
	res := T(fmt.Sprintf("(%s (%s) %s)", q, strings.Join(binders, " "), body.T.S), SBool)
	if len(x.Pats) > 0 && x.Forall {
		// user-supplied triggers
		pats := ""
		for _, ps := range x.Pats {
			var ts []string
			for _, e := range ps {
				pe := *n
				pe.pol = 0
				vc.quantDepth++
				ts = append(ts, vc.eval(&pe, e).T.S)
				vc.quantDepth--
			}
			pats += " :pattern (" + strings.Join(ts, " ") + ")"
		}
		res = T(fmt.Sprintf("(forall (%s) (! %s%s))", strings.Join(binders, " "), body.T.S, pats), SBool)
	}
	if skolemForm != nil {
		res = And(res, *skolemForm)
	}
	if n.split && len(vc.pendingSk) > pendingBefore {
		pats := ""
		for _, t := range vc.pendingSk[pendingBefore:] {
			pats += " :pattern (" + t + ")"
		}
		vc.pendingSk = vc.pendingSk[:pendingBefore]
		skRes := T(fmt.Sprintf("(forall (%s) (! %s%s))", strings.Join(binders, " "), body.T.S, pats), SBool)
		// the same universal as written (existentials kept)
		n2 := env.child()
		n2.noSkolem = true
		var binders2 []string
		for _, b := range x.Vars {
			vc.seq++
			name := sym(fmt.Sprintf("q!%s!%d", b.Name, vc.seq))
			sort, typ := vc.binderSort(b.Type)
			binders2 = append(binders2, fmt.Sprintf("(%s %s)", name, sort))
			n2.vars[b.Name] = &CVal{T: T(name, sort), Typ: typ}
			if b.Type == "strrow" {
				n2.vars[b.Name].ElemTyp = types.Typ[types.String]
			}
		}
		vc.quantDepth++
		body2 := vc.eval(n2, x.Body)
		vc.quantDepth--
		res = And(T(fmt.Sprintf("(forall (%s) %s)", strings.Join(binders2, " "), body2.T.S), SBool), skRes)
	}
	if !x.Forall && vc.quantDepth == 0 && goalLike {
		alts := []Term{res}
		cands := append([][]Term{}, vc.skolems[key]...)
	nextSk:
		for _, sk := range vc.skolemFns[key] {
			var args []Term
			for i, nm := range sk.names {
				v, ok := env.vars[nm]
				if !ok || v.T.Sort != sk.sorts[i] {
					continue nextSk
				}
				args = append(args, v.T)
			}
			var tuple []Term
			for i, b := range x.Vars {
				sort, _ := vc.binderSort(b.Type)
				tuple = append(tuple, T(app(sk.fn[i], args...), sort))
			}
			cands = append(cands, tuple)
		}
		for _, h := range x.Hints {
			if len(h) != len(x.Vars) {
				panic(fmt.Errorf("@try: %d expressions for %d binders", len(h), len(x.Vars)))
			}
			var tuple []Term
			he := *env
			he.pol = 0
			func() {
				// a hint that cannot be evaluated at this program point is skipped
				defer func() {
					if r := recover(); r != nil {
						tuple = nil
					}
				}()
				for _, e := range h {
					tuple = append(tuple, vc.eval(&he, e).T)
				}
			}()
			if tuple != nil {
				cands = append(cands, tuple)
			}
		}
		if len(cands) > 12 {
			cands = cands[len(cands)-12:]
		}
		for _, tuple := range cands {
			m := env.child()
			for i, b := range x.Vars {
				_, typ := vc.binderSort(b.Type)
				m.vars[b.Name] = &CVal{T: tuple[i], Typ: typ}
			}
			alts = append(alts, vc.eval(m, x.Body).T)
		}
		res = Or(alts...)
	}
	return &CVal{T: res}
}

// blockPos: the source position of the first positioned instruction of a block.
func blockPos(b *ssa.BasicBlock) token.Pos {
	for _, in := range b.Instrs {
		if p := in.Pos(); p.IsValid() {
			return p
		}
	}
	return token.NoPos
}

var boundVarRe = regexp.MustCompile(`\|q!([A-Za-z_0-9]+)!\d+\|`)

// funApp applies a named abstraction (`fun`): an uninterpreted SMT function with
// a definitional axiom, so that invariants stay small and have good triggers.
// Two applications share the function symbol iff their expanded bodies (which
// mention the heap versions they read) are textually equal.
func (vc *FuncVC) funApp(env *Env, m *SpecMacro, args []*CVal) *CVal {
	n := env.child()
	n.pol = 0
	var binders, sorts []string
	var formals []Term
	for i, p := range m.Params {
		var sort string
		var typ types.Type
		var elemTyp types.Type
		if m.Types[i] == "" {
			sort, typ = args[i].T.Sort, args[i].Typ
			elemTyp = args[i].ElemTyp
		} else {
			typ = vc.resolveType(m.Types[i], m.Pkg)
			sort = vc.sortOf(typ)
		}
		if args[i].SRef {
			panic(fmt.Errorf("fun %s: struct object passed for %s", m.Name, p))
		}
		if args[i].IsNil {
			args[i] = &CVal{T: nilFor(sort), Typ: typ}
		}
		if args[i].T.Sort != sort {
			if sort == SReal && args[i].T.Sort == SInt {
				args[i] = &CVal{T: ToReal(args[i].T), Typ: typ}
			} else {
				panic(fmt.Errorf("fun %s: argument %s has sort %s, want %s", m.Name, p, args[i].T.Sort, sort))
			}
		}
		name := sym(fmt.Sprintf("fa!%d", i))
		binders = append(binders, fmt.Sprintf("(%s %s)", name, sort))
		sorts = append(sorts, sort)
		formals = append(formals, T(name, sort))
		n.vars[p] = &CVal{T: T(name, sort), Typ: typ, ElemTyp: elemTyp}
	}
	vc.quantDepth++
	body := vc.eval(n, m.Body)
	vc.quantDepth--
	// alpha-normalise bound variables (their names carry a fresh counter)
	key := m.Name + "|" + boundVarRe.ReplaceAllString(body.T.S, "|q!$1|")
	f, ok := vc.funCache[key]
	if !ok {
		f = vc.declFun(fmt.Sprintf("fun!%s!%d", m.Name, len(vc.funCache)), sorts, body.T.Sort)
		vc.funCache[key] = f
		call := T(f, body.T.Sort)
		if len(formals) > 0 {
			call = T(app(f, formals...), body.T.Sort)
			vc.emit(fmt.Sprintf("(assert (forall (%s) (! (= %s %s) :pattern (%s))))", strings.Join(binders, " "), call.S, body.T.S, call.S))
		} else {
			vc.assume(Eq(call, body.T))
		}
	}
	var ts []Term
	for _, a := range args {
		ts = append(ts, a.T)
	}
	if len(ts) == 0 {
		return &CVal{T: T(f, body.T.Sort), Typ: body.Typ}
	}
	return &CVal{T: T(app(f, ts...), body.T.Sort), Typ: body.Typ}
}

// resolveType resolves a Go type expression written in a contract, relative to package pkgPath.
func (vc *FuncVC) resolveType(src, pkgPath string) types.Type {
	src = strings.TrimSpace(src)
	switch {
	case strings.HasPrefix(src, "[]"):
		return types.NewSlice(vc.resolveType(src[2:], pkgPath))
	case strings.HasPrefix(src, "*"):
		return types.NewPointer(vc.resolveType(src[1:], pkgPath))
	case strings.HasPrefix(src, "map["):
		depth := 0
		for i := 3; i < len(src); i++ {
			switch src[i] {
			case '[':
				depth++
			case ']':
				depth--
				if depth == 0 {
					return types.NewMap(vc.resolveType(src[4:i], pkgPath), vc.resolveType(src[i+1:], pkgPath))
				}
			}
		}
	}
	switch src {
	case "real":
		return types.Typ[types.Float64]
	case "interface{}", "any":
		return types.NewInterfaceType(nil, nil)
	}
	if obj := types.Universe.Lookup(src); obj != nil {
		if tn, ok := obj.(*types.TypeName); ok {
			return tn.Type()
		}
	}
	var pkg *types.Package
	name := src
	if i := strings.LastIndex(src, "."); i >= 0 {
		pn := src[:i]
		name = src[i+1:]
		if sp := vc.P.SSAPkgs[pkgPath]; sp != nil {
			for _, imp := range sp.Pkg.Imports() {
				if imp.Name() == pn || imp.Path() == pn {
					pkg = imp
				}
			}
		}
		if pkg == nil {
			pkg = vc.knownPkg(pn)
		}
	} else if sp := vc.P.SSAPkgs[pkgPath]; sp != nil {
		pkg = sp.Pkg
	}
	if pkg != nil {
		if obj := pkg.Scope().Lookup(name); obj != nil {
			if tn, ok := obj.(*types.TypeName); ok {
				return tn.Type()
			}
		}
	}
	panic(fmt.Errorf("cannot resolve type %q (package %s)", src, pkgPath))
}

func (vc *FuncVC) tryResolveType(src string) (t types.Type, ok bool) {
	defer func() {
		if r := recover(); r != nil {
			ok = false
		}
	}()
	pkg := ""
	if vc.C != nil && vc.C.Pkg != "" {
		pkg = vc.C.Pkg
	} else if fn := vc.Fn; fn != nil {
		for fn.Parent() != nil {
			fn = fn.Parent()
		}
		if fn.Pkg != nil {
			pkg = fn.Pkg.Pkg.Path()
		}
	}
	return vc.resolveType(src, pkg), true
}

// mapRangeOf finds the range-over-map iteration of loop li (its header takes Next of it),
// searching enclosing loops outward.
func (vc *FuncVC) mapRangeOf(li *loopInfo) (*iterInfo, iterNames) {
	if li == nil {
		// outside loops: the function's only range-over-map loop, if unique
		var found ssa.Value
		n := 0
		for v, it := range vc.iterOf {
			if !it.isStr {
				found = v
				n++
			}
		}
		if n == 1 {
			return vc.iterOf[found], vc.iterNames[found]
		}
		return nil, iterNames{}
	}
	for ; li != nil; li = li.parent {
		for _, in := range li.header.Instrs {
			if nx, ok := in.(*ssa.Next); ok {
				if it := vc.iterOf[nx.Iter]; it != nil && !it.isStr {
					return it, vc.iterNames[nx.Iter]
				}
				if rg, ok := nx.Iter.(*ssa.Range); ok && vc.iterOf[nx.Iter] == nil {
					if it, nm := vc.staticIter(rg); it != nil {
						return it, nm
					}
				}
			}
		}
	}
	return nil, iterNames{}
}
