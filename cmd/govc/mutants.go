package main

// Developer tool: every small syntactic mutant of the functions matching a regexp is applied to a scratch
// copy and the function's own contract (every clause) is re-verified there; prints the survivors.
// (The thorough tier samples the same operators per property; this sweeps one function completely.)

import (
	"bytes"
	"flag"
	"fmt"
	"os"
	"os/exec"
	"path/filepath"
	"regexp"
	"sort"
	"strings"
	"sync"
)

func cmdMutants(args []string) {
	fs := flag.NewFlagSet("mutants", flag.ExitOnError)
	repo := fs.String("repo", "/repo", "repository")
	pkgs := fs.String("pkgs", "./...", "package patterns (comma separated)")
	fnre := fs.String("fn", "", "regexp on function names (short form)")
	workers := fs.Int("j", 4, "parallel scratch copies")
	fs.Parse(args)
	p, err := LoadProg(*repo, strings.Split(*pkgs, ","), verifDir()+"/specs")
	if err != nil {
		fmt.Fprintln(os.Stderr, err)
		os.Exit(2)
	}
	re := regexp.MustCompile(*fnre)
	var shorts []string
	for name, fn := range p.Funcs {
		if fn.Blocks == nil || !p.inRepoPkg(pkgOf(fn)) || p.CS.Funcs[name] == nil || p.CS.Funcs[name].Trusted {
			continue
		}
		if re.MatchString(p.shortName(name)) {
			shorts = append(shorts, p.shortName(name))
		}
	}
	sort.Strings(shorts)
	root, err := os.MkdirTemp("", "govc-mut")
	if err != nil {
		fmt.Fprintln(os.Stderr, err)
		os.Exit(2)
	}
	defer os.RemoveAll(root)
	var dirs []string
	for i := 0; i < *workers; i++ {
		d := filepath.Join(root, fmt.Sprintf("w%d", i))
		if out, err := exec.Command("rsync", "-a", "--exclude", ".git", *repo+"/", d+"/").CombinedOutput(); err != nil {
			fmt.Fprintln(os.Stderr, "rsync:", string(out))
			os.Exit(2)
		}
		dirs = append(dirs, d)
	}
	self, _ := os.Executable()
	verify := func(wdir, pkgDir, short string) (bool, string) {
		cmd := exec.Command(self, "verify", "-repo", wdir, "-pkgs", "./"+pkgDir, "-fn", "^"+regexp.QuoteMeta(short)+"$")
		cmd.Env = append(os.Environ(), "GOVC_CHILD=1")
		out, _ := cmd.CombinedOutput()
		ok := false
		first := ""
		for _, l := range strings.Split(string(out), "\n") {
			if strings.HasPrefix(l, "== ") {
				var a, b int
				if i := strings.Index(l, ": "); i > 0 {
					fmt.Sscanf(l[i+2:], "%d/%d", &a, &b)
				}
				ok = a == b && b > 0
			}
			if first == "" && (strings.HasPrefix(l, "ERROR") || strings.Contains(l, "undecided") || strings.Contains(l, "failed ")) {
				first = strings.TrimSpace(l)
				if len(first) > 150 {
					first = first[:150]
				}
			}
		}
		if first != "" {
			ok = false
		}
		return ok, first
	}
	for _, short := range shorts {
		cands := mutantCandidates(p, short, *repo)
		if len(cands) == 0 {
			continue
		}
		pkgDir := filepath.Dir(cands[0].File)
		if ok, first := verify(dirs[0], pkgDir, short); !ok {
			fmt.Printf("== %s: the unchanged copy does not verify (%s): skipped\n", short, first)
			continue
		}
		var wg sync.WaitGroup
		ch := make(chan *mutant)
		for w := 0; w < *workers; w++ {
			wdir := dirs[w]
			wg.Add(1)
			go func() {
				defer wg.Done()
				for m := range ch {
					path := filepath.Join(wdir, m.File)
					orig, err := os.ReadFile(path)
					if err != nil {
						m.Status = "error: " + err.Error()
						continue
					}
					var mutated []byte
					if m.End < 0 {
						end := -m.End
						mutated = append(append(append(append(append([]byte{}, orig[:m.Start]...), []byte(m.New)...), orig[m.Start:end]...), ')'), orig[end:]...)
					} else {
						mutated = append(append(append([]byte{}, orig[:m.Start]...), []byte(m.New)...), orig[m.End:]...)
					}
					_ = os.WriteFile(path, mutated, 0o644)
					bc := exec.Command("go", "build", "./"+filepath.Dir(m.File))
					bc.Dir = wdir
					bc.Env = append(os.Environ(), "GOFLAGS=-mod=mod", "GOPROXY=off", "GOSUMDB=off", "GOTOOLCHAIN=local")
					var eb bytes.Buffer
					bc.Stderr = &eb
					if err := bc.Run(); err != nil {
						m.Status = "does not compile"
					} else if ok, first := verify(wdir, pkgDir, short); ok {
						m.Status = "survived"
					} else {
						m.Status = "reported: " + first
					}
					_ = os.WriteFile(path, orig, 0o644)
				}
			}()
		}
		for _, m := range cands {
			ch <- m
		}
		close(ch)
		wg.Wait()
		compiled, reported := 0, 0
		for _, m := range cands {
			if m.Status == "does not compile" || strings.HasPrefix(m.Status, "error") {
				continue
			}
			compiled++
			if strings.HasPrefix(m.Status, "reported") {
				reported++
			}
		}
		fmt.Printf("== %s: %d/%d mutants reported\n", short, reported, compiled)
		for _, m := range cands {
			if m.Status == "survived" {
				fmt.Printf("   survivor: %s\n", m.Desc)
			}
		}
	}
}
