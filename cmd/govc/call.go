package main

import (
	"sort"
	"os"
	"fmt"
	"go/types"
	"strings"

	"golang.org/x/tools/go/ssa"
)

// calleeName classifies a call and names its callee.
//   static:  fn.String()                         e.g. strings.HasPrefix, (*T).M, pkg.F$1
//   invoke:  (pkg.Iface).Method                  interface method call
//   dynamic: dyn:<origin>                        call of a func value
func (vc *FuncVC) calleeName(c *ssa.CallCommon) (name, kind string, fn *ssa.Function) {
	if c.IsInvoke() {
		return c.Method.FullName(), "invoke", nil
	}
	if f := c.StaticCallee(); f != nil {
		return f.String(), "static", f
	}
	return "dyn:" + vc.origin(c.Value), "dynamic", nil
}

// origin describes where a func value comes from (for watch patterns on dynamic calls).
func (vc *FuncVC) origin(v ssa.Value) string {
	switch x := v.(type) {
	case *ssa.UnOp:
		if fa, ok := x.X.(*ssa.FieldAddr); ok {
			return "field:" + vc.typeName(fa.X.Type().Underlying().(*types.Pointer).Elem()) + "." + fieldName(fa)
		}
		if fv, ok := x.X.(*ssa.FreeVar); ok {
			return "free:" + fv.Name()
		}
		if g, ok := x.X.(*ssa.Global); ok {
			return "global:" + g.Name()
		}
	case *ssa.Parameter:
		return "param:" + x.Name()
	case *ssa.FreeVar:
		return "free:" + x.Name()
	case *ssa.Field:
		return "field:" + vc.typeName(x.X.Type()) + "." + x.X.Type().Underlying().(*types.Struct).Field(x.Field).Name()
	case *ssa.Call:
		n, _, _ := vc.calleeName(x.Common())
		return "result:" + vc.P.shortName(n)
	case *ssa.Extract:
		if c, ok := x.Tuple.(*ssa.Call); ok {
			n, _, _ := vc.calleeName(c.Common())
			return fmt.Sprintf("result%d:%s", x.Index, vc.P.shortName(n))
		}
	case *ssa.Phi:
		return "phi:" + x.Comment
	}
	return "value"
}

// staticSites lists the call instructions of the function that the watch labelled L matches, in source order
// (closure/go watches, which are not call instructions, are not listed).
func (vc *FuncVC) staticSites(label string) []ssa.Instruction {
	if r, ok := vc.siteCache[label]; ok {
		return r
	}
	var w *Watch
	for _, x := range vc.watches {
		if x.Label == label {
			w = x
		}
	}
	var out []ssa.Instruction
	if w != nil {
		for _, b := range vc.Fn.Blocks {
			for _, in := range b.Instrs {
				ci, ok := in.(ssa.CallInstruction)
				if !ok {
					continue
				}
				c := ci.Common()
				if _, isB := c.Value.(*ssa.Builtin); isB {
					continue
				}
				name, kind, _ := vc.calleeName(c)
				if vc.matchWatch(w, name, kind) {
					out = append(out, in)
				}
			}
		}
		sort.SliceStable(out, func(i, j int) bool { return out[i].Pos() < out[j].Pos() })
	}
	if vc.siteCache == nil {
		vc.siteCache = map[string][]ssa.Instruction{}
	}
	vc.siteCache[label] = out
	return out
}

func (vc *FuncVC) matchWatch(w *Watch, name, kind string) bool {
	pk, pn := splitWord(w.Pattern)
	short := vc.P.shortName(name)
	switch pk {
	case "invoke":
		if strings.HasPrefix(pn, "*.") {
			return kind == "invoke" && strings.HasSuffix(name, ")."+pn[2:])
		}
		return kind == "invoke" && (pn == name || pn == short || "("+pn[:max(strings.LastIndex(pn, "."), 0)]+")"+pn[max(strings.LastIndex(pn, "."), 0):] == name)
	case "call":
		return kind == "static" && (pn == name || pn == short || qualify(vc.C.Pkg, pn) == name)
	case "dyn":
		return kind == "dynamic" && "dyn:"+pn == name
	case "any":
		return pn == name || pn == short || "dyn:"+pn == name
	}
	return false
}

// ---------- call log (DESIGN §2.4) ----------

func (vc *FuncVC) logComp(prefix, label, what, sort string) string {
	name := "LG!" + prefix + label + "!" + what
	if what == "cnt" {
		return vc.comp(name, SInt, true)
	}
	return vc.comp(name, arraySort(SInt, sort), true)
}

type logEntry struct {
	w        *Watch
	tag      Term
	retTypes []types.Type
}

func (vc *FuncVC) logCall(w *Watch, recv *Term, args []Term, argTypes []types.Type, argVals ...ssa.Value) logEntry {
	L := w.Label
	cntC := vc.logComp("", L, "cnt", "")
	cnt := vc.cur.get(cntC)
	tag := cnt
	if w.Tag != nil {
		env := vc.newEnv(vc.cur, vc.entryState)
		env.loop = vc.loopOf[vc.curBlock]
		env.phiEdge = -1
		tag = vc.eval(env, w.Tag).T
	}
	set := func(what, sort string, v Term) {
		c := vc.logComp("", L, what, sort)
		vc.cur = vc.cur.set(c, Store(vc.cur.get(c), tag, v))
	}
	set("called", SBool, tTrue)
	clock := vc.cur.get("clock")
	set("time", SInt, clock)
	vc.cur = vc.cur.set("clock", Arith("+", clock, IntLit(1)))
	vc.cur = vc.cur.set(cntC, Arith("+", cnt, IntLit(1)))
	if recv != nil {
		set("recv", recv.Sort, *recv)
	}
	for i, a := range args {
		set(fmt.Sprintf("a%d", i), a.Sort, a)
		if i < len(argTypes) {
			vc.logTypes[vc.logComp("", L, fmt.Sprintf("a%d", i), a.Sort)] = argTypes[i]
		}
		// variadic argument built from a literal list: log the elements as passed
		if i < len(argVals) {
			if arr, n, elem := varargsArray(argVals[i]); arr != nil {
				ref := vc.val(arr).T
				for j := 0; j < n; j++ {
					var v Term
					if isStruct(elem) {
						v = vc.loadStruct(vc.cur, elem, vc.elemRef(ref, IntLit(int64(j))), "")
					} else {
						es := vc.sortOf(elem)
						v = Select(Select(vc.cur.get(vc.elemComp(elem)), ref, arraySort(SInt, es)), IntLit(int64(j)), es)
					}
					c := vc.logComp("", L, fmt.Sprintf("a%d_%d", i, j), v.Sort)
					vc.logTypes[c] = elem
					vc.cur = vc.cur.set(c, Store(vc.cur.get(c), tag, v))
				}
			}
		}
	}
	return logEntry{w: w, tag: tag}
}

func (vc *FuncVC) logReturn(le logEntry, rets []Term) {
	for i, r := range rets {
		c := vc.logComp("", le.w.Label, fmt.Sprintf("r%d", i), r.Sort)
		if i < len(le.retTypes) {
			vc.logTypes[c] = le.retTypes[i]
		}
		vc.cur = vc.cur.set(c, Store(vc.cur.get(c), le.tag, r))
	}
}

// preRegisterLogs declares the log components of every watched call in the
// function up front, so that clauses may mention them on paths that return
// before the call.
func (vc *FuncVC) preRegisterLogs() {
	for _, b := range vc.Fn.Blocks {
		for _, in := range b.Instrs {
			if mc, ok := in.(*ssa.MakeClosure); ok {
				fn := mc.Fn.(*ssa.Function)
				for _, w := range vc.watches {
					pk, pn := splitWord(w.Pattern)
					if pk != "closure" || !(pn == fn.String() || pn == vc.P.shortName(fn.String()) || qualify(vc.C.Pkg, pn) == fn.String() || pn == fn.Name()) {
						continue
					}
					for i, b := range mc.Bindings {
						comp := vc.logComp("", w.Label, fmt.Sprintf("a%d", i), vc.sortOf(b.Type()))
						vc.logTypes[comp] = b.Type()
					}
					vc.closureOf[w.Label] = fn
					vc.closureMC[w.Label] = mc
					comp := vc.logComp("", w.Label, "r0", SInt)
					vc.logTypes[comp] = mc.Type()
					vc.logComp("", w.Label, "time", SInt)
				}
				continue
			}
			ci, ok := in.(ssa.CallInstruction)
			if !ok {
				continue
			}
			c := ci.Common()
			if _, isB := c.Value.(*ssa.Builtin); isB {
				continue
			}
			name, kind, fn := vc.calleeName(c)
			for _, w := range vc.watches {
				if !vc.matchWatch(w, name, kind) {
					continue
				}
				if c.IsInvoke() {
					vc.logComp("", w.Label, "recv", SIface)
				}
				for i, a := range c.Args {
					comp := vc.logComp("", w.Label, fmt.Sprintf("a%d", i), vc.sortOf(a.Type()))
					vc.logTypes[comp] = a.Type()
					if arr, n, elem := varargsArray(a); arr != nil {
						for j := 0; j < n; j++ {
							cj := vc.logComp("", w.Label, fmt.Sprintf("a%d_%d", i, j), vc.sortOf(elem))
							vc.logTypes[cj] = elem
						}
					}
				}
				sig := c.Signature()
				if fn != nil {
					sig = fn.Signature
				}
				for i := 0; i < sig.Results().Len(); i++ {
					comp := vc.logComp("", w.Label, fmt.Sprintf("r%d", i), vc.sortOf(sig.Results().At(i).Type()))
					vc.logTypes[comp] = sig.Results().At(i).Type()
				}
				vc.logComp("", w.Label, "time", SInt)
			}
		}
	}
}

// logClosure records the creation of a closure for `watch L = closure Outer$N`:
// arguments are the captured cells (pointers), the result is the closure value.
func (vc *FuncVC) logClosure(x *ssa.MakeClosure, t Term) {
	fn := x.Fn.(*ssa.Function)
	for _, w := range vc.watches {
		pk, pn := splitWord(w.Pattern)
		if pk != "closure" || !(pn == fn.String() || pn == vc.P.shortName(fn.String()) || qualify(vc.C.Pkg, pn) == fn.String() || pn == fn.Name()) {
			continue
		}
		var args []Term
		var ats []types.Type
		for _, b := range x.Bindings {
			args = append(args, vc.term(b))
			ats = append(ats, b.Type())
		}
		le := vc.logCall(w, nil, args, ats)
		le.retTypes = []types.Type{x.Type()}
		vc.logReturn(le, []Term{t})
	}
}

// initLogs: at function entry every watch has an empty log.
func (vc *FuncVC) initLogs() {
	vc.preRegisterLogs()
	for _, w := range vc.watches {
		cnt := vc.logComp("", w.Label, "cnt", "")
		called := vc.logComp("", w.Label, "called", SBool)
		vc.assume(Eq(vc.entryState.get(cnt), IntLit(0)))
		vc.assume(Eq(vc.entryState.get(called), T("((as const (Array Int Bool)) false)", arraySort(SInt, SBool))))
	}
}

// ---------- calls ----------

func flatten(v *Val) []Term {
	if v.Tuple != nil {
		var out []Term
		for _, x := range v.Tuple {
			out = append(out, flatten(x)...)
		}
		return out
	}
	return []Term{v.T}
}

func (vc *FuncVC) execCall(in ssa.Instruction, c *ssa.CallCommon, res ssa.Value) {
	if b, ok := c.Value.(*ssa.Builtin); ok {
		vc.execBuiltin(b, c, res)
		return
	}
	name, kind, fn := vc.calleeName(c)
	var recv *Term
	var args []Term
	var argVals []*Val
	if kind == "invoke" {
		r := vc.term(c.Value)
		recv = &r
		if res != nil || true {
			vc.oblige("safe.nil", "safe.nil.invoke."+c.Method.Name(), vc.g(), Not(Eq(r, T("nil_iface", SIface))), "method call on nil interface: "+name)
		}
	}
	for _, a := range c.Args {
		av := vc.val(a)
		argVals = append(argVals, av)
		args = append(args, vc.termOf(av))
	}
	for i, a := range c.Args {
		// whatever a callee is handed may be retained and handed back later
		if !(argVals[i].Loc != nil && argVals[i].T.S == "") {
			vc.publish(args[i], a.Type())
		}
		// the elements of a literal variadic list are handed over too
		if arr, n, elem := varargsArray(a); arr != nil && !isStruct(elem) {
			ref := vc.val(arr).T
			es := vc.sortOf(elem)
			for j := 0; j < n; j++ {
				vc.publish(Select(Select(vc.cur.get(vc.elemComp(elem)), ref, arraySort(SInt, es)), IntLit(int64(j)), es), elem)
			}
		}
	}
	if recv != nil {
		vc.publish(*recv, c.Value.Type())
	}
	if kind == "dynamic" {
		fv := vc.term(c.Value)
		vc.oblige("safe.nil", "safe.nil.call", vc.g(), Not(Eq(fv, IntLit(0))), "call of nil func value")
	}
	// escaping field/element addresses: the callee may write through them
	var escaped []string
	_, isAtomic := atomicOp(name)
	for i, a := range c.Args {
		if isAtomic {
			break
		}
		if argVals[i].Loc != nil && argVals[i].T.S == "" {
			escaped = append(escaped, vc.storeComps(a)...)
		} else if _, isPtr := a.Type().Underlying().(*types.Pointer); isPtr && vc.localSuffix(a) != "" {
			// cannot happen: locals never escape
		}
	}
	var entries []logEntry
	for _, w := range vc.watches {
		if vc.matchWatch(w, name, kind) {
			vc.watchHit[w.Label] = true
			var ats []types.Type
			for _, a := range c.Args {
				ats = append(ats, a.Type())
			}
			entries = append(entries, vc.logCall(w, recv, args, ats, c.Args...))
		}
	}
	for _, le := range entries {
		vc.callPre[le.w.Label] = append(vc.callPre[le.w.Label], vc.cur)
		vc.callGuard[le.w.Label] = append(vc.callGuard[le.w.Label], vc.g())
		vc.callBlock[le.w.Label] = append(vc.callBlock[le.w.Label], vc.curBlock)
		vc.callInstr[le.w.Label] = append(vc.callInstr[le.w.Label], in)
	}
	var result *Val
	var sig *types.Signature
	if fn != nil {
		sig = fn.Signature
	} else {
		sig = c.Signature()
	}
	for i := range entries {
		for k := 0; k < sig.Results().Len(); k++ {
			entries[i].retTypes = append(entries[i].retTypes, sig.Results().At(k).Type())
		}
	}
	con := vc.P.CS.Funcs[name]
	if con != nil && vc.C != nil && vc.C.Opaque[vc.P.shortName(name)] {
		con = nil
	}
	switch {
	case con != nil:
		result = vc.applyContract(con, name, fn, sig, c, recv, argVals, args)
	default:
		if r, ok := vc.libCall(name, c, args); ok {
			result = r
		} else {
			result = vc.opaqueCall(name, kind, sig)
		}
	}
	if len(escaped) > 0 {
		vc.cur = vc.cur.havocOnly(escaped, "escaped-addr:"+name)
		vc.note("address of a field/element passed to %s: component havoc'd after the call", vc.P.shortName(name))
	}
	for _, le := range entries {
		if vc.C != nil && len(vc.C.Effects[le.w.Label]) > 0 {
			vc.applyEffects(le.w.Label)
		}
	}
	for _, le := range entries {
		vc.callPost[le.w.Label] = append(vc.callPost[le.w.Label], vc.cur)
	}
	for _, le := range entries {
		vc.logReturn(le, flatten(result))
		if vc.C != nil {
			for _, a := range vc.C.AssumeAfter[le.w.Label] {
				env := vc.newEnv(vc.cur, vc.entryState)
				vc.assume(Implies(vc.g(), vc.evalBool(env, a)))
				vc.note("assumed after call %s: %s", le.w.Label, a.Src)
			}
		}
	}
	if res != nil {
		if con != nil && con.FreshResult && sig.Results().Len() == 1 {
			vc.freshVals[res] = true
		}
		if result.Tuple == nil && sig.Results().Len() == 1 {
			vc.defineVal(res, result)
			vc.vals[res].Typ = res.Type()
		} else {
			result.Typ = res.Type()
			vc.vals[res] = result
		}
	}
}

// opaqueCall: unknown callee — arbitrary results, every unprotected heap component havoc'd.
func (vc *FuncVC) opaqueCall(name, kind string, sig *types.Signature) *Val {
	vc.abstract("opaque-call:" + vc.P.shortName(name))
	vc.havocOpaque("call:" + name)
	if kind == "static" {
		if fn := vc.P.Funcs[name]; fn != nil && vc.P.inRepoPkg(pkgOf(fn)) {
			// a function of this repository without a contract may write anything,
			// including the fields the global frame assumption protects from outside code
			vc.cur.havocTotal = true
			vc.note("%s is a function of this repository without a contract: every heap component is havoc'd at its call", vc.P.shortName(name))
		}
	}
	return vc.resultVal("ret", sig)
}

// havocOpaque forgets every unprotected heap component, except the locations the
// contract declares `stable` (an explicit, listed assumption).
func (vc *FuncVC) havocOpaque(tag string) {
	pre := vc.cur
	vc.cur = pre.havoc(tag)
	// closures created by this function that escape (passed to callees, stored, returned)
	// may be run by any opaque callee: their writes are part of its effect
	if comps, total := vc.escapingClosureWrites(); total {
		vc.cur.havocTotal = true
		vc.note("an escaping closure of this function calls other code: opaque calls havoc every heap component")
	} else if len(comps) > 0 {
		vc.cur.only = map[string]bool{}
		for _, c := range comps {
			vc.cur.only[c] = true
		}
	}
	// objects allocated here whose address has not escaped yet are out of the callee's reach
	if vc.curInstr != nil {
		for _, a := range vc.unescapedAllocs(vc.curInstr) {
			if _, isPtr := a.Type().Underlying().(*types.Pointer); !isPtr {
				vc.preserveContainer(pre, a)
				continue
			}
			elem := a.Type().Underlying().(*types.Pointer).Elem()
			ref := vc.vals[a].T
			var locs []*Loc
			switch u := elem.Underlying().(type) {
			case *types.Struct:
				locs = vc.structLocs(elem, ref)
			case *types.Array:
				_ = u
				continue
			default:
				locs = []*Loc{{Comp: vc.cellComp(elem, ""), Ref: ref, Typ: elem}}
			}
			for _, l := range locs {
				if vc.protected(l.Comp) {
					continue
				}
				vc.assume(Eq(vc.loadLoc(vc.cur, l), vc.loadLoc(pre, l)))
			}
		}
	}
	if vc.C == nil {
		return
	}
	for _, l := range vc.stableLocs() {
		if vc.protected(l.Comp) {
			continue
		}
		vc.assume(Eq(vc.loadLoc(vc.cur, l), vc.loadLoc(pre, l)))
	}
	// stable now:x.f.g — the location is resolved in the state before the call
	for _, d := range vc.C.Stable {
		if !strings.HasPrefix(d, "now:") || strings.HasPrefix(d, "comp:") {
			continue
		}
		e, err := ParseExpr(strings.TrimPrefix(d, "now:"))
		if err != nil {
			panic(err)
		}
		env := vc.newEnv(pre, vc.entryState)
		for _, l := range vc.designatorLocs(env, e) {
			if !vc.protected(l.Comp) {
				vc.assume(Eq(vc.loadLoc(vc.cur, l), vc.loadLoc(pre, l)))
			}
		}
	}
	// stable x.f[*]: the backing array the slice x.f has right now is not written
	for _, d := range vc.C.Stable {
		if !strings.HasSuffix(d, "[*]") || strings.HasPrefix(d, "comp:") {
			continue
		}
		if strings.HasSuffix(d, "[*][*]") {
			vc.assume(vc.mapSliceStable(d, pre, vc.cur))
			d = strings.TrimSuffix(d, "[*]")
		}
		e, err := ParseExpr(strings.TrimSuffix(d, "[*]"))
		if err != nil {
			panic(err)
		}
		env := vc.newEnv(pre, vc.entryState)
		sv := vc.eval(env, e)
		if mt, isMap := sv.Typ.Underlying().(*types.Map); isMap {
			dc, vn := vc.mapComps(mt)
			for _, c := range []string{dc, vn} {
				_, row := arrayParts(vc.comps[c])
				vc.assume(Eq(Select(vc.cur.get(c), sv.T, row), Select(pre.get(c), sv.T, row)))
			}
			continue
		}
		sl, ok := sv.Typ.Underlying().(*types.Slice)
		if !ok {
			panic(fmt.Errorf("stable %s: not a slice or map", d))
		}
		arr := T(app("s_arr", sv.T), SInt)
		var comps []string
		if isStruct(sl.Elem()) {
			vc.note("stable %s: struct elements are not covered", d)
			continue
		}
		comps = []string{vc.elemComp(sl.Elem())}
		for _, c := range comps {
			_, row := arrayParts(vc.comps[c])
			vc.assume(Eq(Select(vc.cur.get(c), arr, row), Select(pre.get(c), arr, row)))
		}
	}
}

func (vc *FuncVC) stableLocs() []*Loc {
	if vc.stableDone || len(vc.C.Stable) == 0 {
		return vc.stable
	}
	vc.stableDone = true
	env := vc.newEnv(vc.entryState, vc.entryState)
	for _, d := range vc.C.Stable {
		if strings.HasSuffix(d, "[*]") {
			vc.note("assumed: opaque callees do not write the elements of %s", strings.TrimSuffix(d, "[*]"))
			continue
		}
		if strings.HasPrefix(d, "now:") {
			vc.note("assumed: opaque callees do not write %s (of the object it denotes at the time of the call)", strings.TrimPrefix(d, "now:"))
			continue
		}
		if strings.HasPrefix(d, "comp:") {
			vc.note("assumed: opaque callees do not write heap component %s (that field of any object)", strings.TrimPrefix(d, "comp:"))
			continue
		}
		e, err := ParseExpr(d)
		if err != nil {
			panic(err)
		}
		vc.stable = append(vc.stable, vc.designatorLocs(env, e)...)
		vc.note("assumed: opaque callees do not write %s", d)
	}
	return vc.stable
}

func (vc *FuncVC) resultVal(prefix string, sig *types.Signature) *Val {
	rs := sig.Results()
	switch rs.Len() {
	case 0:
		return &Val{Tuple: []*Val{}, Typ: rs}
	case 1:
		v := vc.freshVal(prefix, rs.At(0).Type())
		vc.assumeAllocatedOrFresh(v.T, rs.At(0).Type())
		return v
	}
	v := vc.freshVal(prefix, rs)
	for i, x := range v.Tuple {
		vc.assumeAllocatedOrFresh(x.T, rs.At(i).Type())
	}
	return v
}

func (vc *FuncVC) assumeAllocatedOrFresh(t Term, typ types.Type) {
	// a callee cannot return memory this function allocated and has not handed out
	var ref Term
	switch typ.Underlying().(type) {
	case *types.Pointer, *types.Map:
		ref = t
	case *types.Slice:
		ref = T(app("s_arr", t), SInt)
		vc.assume(Or(Eq(ref, IntLit(0)), Eq(vc.baseOf(ref), ref)))
	default:
		return
	}
	// dynamic rule: the result is nil, an object some other code already knew, or one the callee allocated
	{
		al, es := vc.named("alc", vc.cur.get("alloc")), vc.named("esc", vc.cur.get("escaped"))
		b := vc.baseOf(ref)
		vc.assume(Or(Eq(ref, IntLit(0)), Select(es, b, SBool), Not(Select(al, b, SBool))))
		// whatever it is, the object exists from now on and the callee knows it
		isNil := Eq(ref, IntLit(0))
		if os.Getenv("GOVC_X1") != "" {
			return
		}
		vc.cur = vc.cur.set("alloc", Store(al, b, Ite(isNil, Select(al, b, SBool), tTrue)))
		vc.cur = vc.cur.set("escaped", Store(es, b, Ite(isNil, Select(es, b, SBool), tTrue)))
	}
	if vc.curInstr == nil {
		return
	}
	for _, a := range vc.unescapedAllocs(vc.curInstr) {
		av := vc.vals[a]
		if av == nil || av.T.S == "" {
			continue
		}
		var aref Term
		switch a.Type().Underlying().(type) {
		case *types.Slice:
			aref = T(app("s_arr", av.T), SInt)
		case *types.Pointer, *types.Map:
			aref = av.T
		default:
			continue
		}
		vc.assume(Or(Eq(ref, IntLit(0)), Not(Eq(ref, aref))))
	}
}

// applyContract uses a callee's contract at a call site: assert requires,
// havoc its frame, assume ensures.
func (vc *FuncVC) applyContract(con *Contract, name string, fn *ssa.Function, sig *types.Signature, c *ssa.CallCommon, recv *Term, argVals []*Val, args []Term) *Val {
	vc.contractUse[name] = true
	if vc.P.CS.Assumed[name] || con.Trusted {
		vc.assumedUsed[name] = true
	}
	pre := vc.cur
	env := vc.newEnv(pre, pre)
	env.callee = true
	env.calleeSig = sig
	env.calleeFn = fn
	env.calleeCon = con
	env.calleeName = name
	// bind formals
	names := formalNames(con, sig, c.IsInvoke())
	k := 0
	if c.IsInvoke() {
		env.vars[names[0]] = &CVal{T: *recv, Typ: c.Value.Type()}
		k = 1
	}
	ptypes := paramTypes(sig, c.IsInvoke(), c.Value.Type())
	for i, a := range argVals {
		if k+i >= len(names) {
			break
		}
		cv := &CVal{T: args[i], Typ: ptypes[k+i]}
		if a.Loc != nil && a.T.S == "" {
			cv.Loc = a.Loc
		}
		env.vars[names[k+i]] = cv
	}
	if fn != nil {
		bind := func(fv *ssa.FreeVar, b ssa.Value) {
			if pfv, ok := b.(*ssa.FreeVar); ok {
				// a cell this function only reads and passes on: its constant content
				if t, ok := vc.immutableCell(pfv); ok {
					env.vars[fv.Name()] = &CVal{T: t, Typ: fv.Type().Underlying().(*types.Pointer).Elem()}
					return
				}
			}
			env.vars[fv.Name()] = &CVal{T: vc.term(b), Typ: fv.Type(), IsCell: true, Suffix: vc.localSuffix(b)}
		}
		if mc, ok := c.Value.(*ssa.MakeClosure); ok {
			for i, fv := range fn.FreeVars {
				bind(fv, mc.Bindings[i])
			}
		} else if v := vc.val(c.Value); v != nil && v.Clo != nil {
			for i, fv := range fn.FreeVars {
				bind(fv, v.Clo.Bindings[i])
			}
		}
	}
	short := vc.P.shortName(name)
	for n, r := range con.Requires {
		vc.goalSkolemised = false
		f := vc.evalGoal(env, r)
		h := f
		if vc.goalSkolemised {
			h = vc.evalBool(env, r)
		}
		vc.obligeWith("pre", fmt.Sprintf("pre.%s.%s", short, clauseName(r, n)), vc.g(), f, h, "precondition of "+short+": "+r.Src)
	}
	// result
	var result *Val
	if con.Pure {
		var sorts []string
		var ts []Term
		if recv != nil {
			sorts = append(sorts, recv.Sort)
			ts = append(ts, *recv)
		}
		for _, a := range args {
			sorts = append(sorts, a.Sort)
			ts = append(ts, a)
		}
		rs := sig.Results()
		mk := func(i int) *Val {
			f := vc.declFun(fmt.Sprintf("pf!%s!%d", name, i), sorts, vc.sortOf(rs.At(i).Type()))
			var t Term
			if len(ts) == 0 {
				t = T(f, vc.sortOf(rs.At(i).Type()))
			} else {
				t = T(app(f, ts...), vc.sortOf(rs.At(i).Type()))
			}
			return &Val{T: t, Typ: rs.At(i).Type()}
		}
		if rs.Len() == 1 {
			result = mk(0)
			vc.assume(vc.typeInv(result.T, rs.At(0).Type()))
		} else {
			result = &Val{Typ: rs}
			for i := 0; i < rs.Len(); i++ {
				v := mk(i)
				vc.assume(vc.typeInv(v.T, rs.At(i).Type()))
				result.Tuple = append(result.Tuple, v)
			}
		}
	} else {
		// frame
		switch {
		case con.HasAssgn && len(con.Assigns) == 0:
			// assigns \nothing
		case con.HasAssgn:
			vc.cur = vc.havocDesignators(env, con.Assigns, name)
		default:
			vc.havocOpaque("call:" + name)
		}
		result = vc.resultVal("ret", sig)
	}
	// callee-side call logs are fresh per call
	vc.seq++
	env.logPrefix = fmt.Sprintf("%s#%d!", short, vc.seq)
	env.st = vc.cur
	env.old = pre
	env.results = nil
	if result.Tuple != nil {
		env.results = result.Tuple
	} else {
		env.results = []*Val{result}
	}
	for _, e := range con.Ensures {
		func() {
			defer func() {
				if r := recover(); r != nil {
					// a clause over the callee's own local variables says nothing a caller can use
					// (every clause is evaluated in full when the callee itself is verified, so a
					// clause that only makes sense there - its locals, its loops - is simply not used)
					vc.note("clause of %s not available to callers (callee-local state): %s", short, truncate(e.Src, 80))
				}
			}()
			vc.assume(Implies(vc.g(), vc.evalBool(env, e)))
		}()
	}
	return result
}

func formalNames(con *Contract, sig *types.Signature, invoke bool) []string {
	if len(con.Params) > 0 {
		return con.Params
	}
	var names []string
	if r := sig.Recv(); r != nil {
		n := r.Name()
		if n == "" || n == "_" {
			n = "recv"
		}
		names = append(names, n)
	}
	for i := 0; i < sig.Params().Len(); i++ {
		n := sig.Params().At(i).Name()
		if n == "" || n == "_" {
			n = fmt.Sprintf("arg%d", i)
		}
		names = append(names, n)
	}
	return names
}

func paramTypes(sig *types.Signature, invoke bool, recvType types.Type) []types.Type {
	var ts []types.Type
	if r := sig.Recv(); r != nil {
		if invoke {
			ts = append(ts, recvType)
		} else {
			ts = append(ts, r.Type())
		}
	}
	for i := 0; i < sig.Params().Len(); i++ {
		ts = append(ts, sig.Params().At(i).Type())
	}
	return ts
}

func resultNames(con *Contract, sig *types.Signature) []string {
	if con != nil && len(con.Results) > 0 {
		return con.Results
	}
	var names []string
	rs := sig.Results()
	for i := 0; i < rs.Len(); i++ {
		names = append(names, rs.At(i).Name())
	}
	return names
}

// havocDesignators havocs exactly the locations named by an assigns clause.
func (vc *FuncVC) havocDesignators(env *Env, designators []string, callee string) *State {
	st := vc.cur
	for _, d := range designators {
		if strings.HasPrefix(d, "comp:") {
			// whole component by name pattern, e.g. comp:E!Int
			c := strings.TrimPrefix(d, "comp:")
			vc.registerFieldComp(c)
			st = st.havocOnly([]string{c}, "assigns:"+callee)
			continue
		}
		if d == "\\everything" || d == "\\opaque" {
			vc.cur = st
			vc.havocOpaque("assigns:" + callee)
			st = vc.cur
			continue
		}
		if strings.HasSuffix(d, "[*]") {
			// every element of the slice's backing array
			e, err := ParseExpr(strings.TrimSuffix(d, "[*]"))
			if err != nil {
				panic(fmt.Errorf("assigns %q: %v", d, err))
			}
			sv := vc.eval(env, e)
			if mt, isMap := sv.Typ.Underlying().(*types.Map); isMap {
				// every entry of the map
				dc, vn := vc.mapComps(mt)
				for _, c := range []string{dc, vn} {
					_, row := arrayParts(vc.comps[c])
					st = st.set(c, Store(st.get(c), sv.T, vc.fresh("hvrow", row)))
				}
				continue
			}
			sl, ok := sv.Typ.Underlying().(*types.Slice)
			if !ok || isStruct(sl.Elem()) {
				panic(fmt.Errorf("assigns %q: slice of non-struct elements expected", d))
			}
			c := vc.elemComp(sl.Elem())
			_, row := arrayParts(vc.comps[c])
			arr := T(app("s_arr", sv.T), SInt)
			st = st.set(c, Store(st.get(c), arr, vc.fresh("hvrow", row)))
			continue
		}
		e, err := ParseExpr(d)
		if err != nil {
			panic(fmt.Errorf("assigns %q: %v", d, err))
		}
		locs := vc.designatorLocs(env, e)
		for _, l := range locs {
			h := st.get(l.Comp)
			nv := vc.fresh("hv", vc.sortOf(l.Typ))
			vc.assume(vc.typeInv(nv, l.Typ))
			st2 := *st
			_ = st2
			vc.cur = st
			st = vc.storeLoc(st, l, nv)
			_ = h
		}
	}
	return st
}

// designatorLocs resolves an assigns designator (x.f, x.f.g, *p, s[*]) to locations.
func (vc *FuncVC) designatorLocs(env *Env, e Expr) []*Loc {
	switch x := e.(type) {
	case *EIdent:
		// a captured variable: the closure cell that holds it
		if v, ok := env.vars[x.Name]; ok && v.IsCell {
			elem := v.Typ.Underlying().(*types.Pointer).Elem()
			if isStruct(elem) {
				return vc.structLocs(elem, v.T)
			}
			return []*Loc{{Comp: vc.cellComp(elem, v.Suffix), Ref: v.T, Typ: elem}}
		}
		if !env.callee {
			for _, fv := range vc.Fn.FreeVars {
				if fv.Name() == x.Name {
					elem := fv.Type().Underlying().(*types.Pointer).Elem()
					ref := vc.val(fv).T
					if isStruct(elem) {
						return vc.structLocs(elem, ref)
					}
					return []*Loc{{Comp: vc.cellComp(elem, ""), Ref: ref, Typ: elem}}
				}
			}
		}
		panic(fmt.Errorf("assigns: %s is not a captured variable", x.Name))
	case *EField:
		base := vc.eval(env, x.X)
		ref, st, ok := vc.structRefOf(base)
		if !ok {
			panic(fmt.Errorf("assigns: %v is not a struct reference", x.X))
		}
		si := vc.structOf(st)
		for i, f := range si.Fields {
			if f.Name == x.Name {
				if isStruct(f.Type) {
					return vc.structLocs(f.Type, vc.fldRef(si, i, ref))
				}
				return []*Loc{{Comp: vc.fieldComp(si, i, ""), Ref: ref, Typ: f.Type}}
			}
		}
		panic(fmt.Errorf("assigns: no field %s", x.Name))
	case *EUnary:
		if x.Op == "*" {
			base := vc.eval(env, x.X)
			if base.Loc != nil {
				return []*Loc{base.Loc}
			}
			elem := base.Typ.Underlying().(*types.Pointer).Elem()
			if isStruct(elem) {
				return vc.structLocs(elem, base.T)
			}
			return []*Loc{{Comp: vc.cellComp(elem, ""), Ref: base.T, Typ: elem}}
		}
	}
	panic(fmt.Errorf("unsupported assigns designator %v", e))
}

func (vc *FuncVC) structLocs(t types.Type, ref Term) []*Loc {
	si := vc.structOf(t)
	var out []*Loc
	for i, f := range si.Fields {
		if isStruct(f.Type) {
			out = append(out, vc.structLocs(f.Type, vc.fldRef(si, i, ref))...)
		} else {
			out = append(out, &Loc{Comp: vc.fieldComp(si, i, ""), Ref: ref, Typ: f.Type})
		}
	}
	return out
}

// ---------- builtins ----------

func (vc *FuncVC) execBuiltin(b *ssa.Builtin, c *ssa.CallCommon, res ssa.Value) {
	def := func(t Term) {
		if res != nil {
			vc.defineVal(res, &Val{T: t})
		}
	}
	switch b.Name() {
	case "len", "cap":
		a := vc.term(c.Args[0])
		switch c.Args[0].Type().Underlying().(type) {
		case *types.Basic:
			def(T(app("len", a), SInt))
		case *types.Slice:
			if b.Name() == "len" {
				def(T(app("s_len", a), SInt))
			} else {
				def(T(app("s_cap", a), SInt))
			}
		case *types.Map:
			mt := c.Args[0].Type().Underlying().(*types.Map)
			dc, _ := vc.mapComps(mt)
			ks := vc.sortOf(mt.Key())
			f := vc.declFun("card!"+ks, []string{arraySort(ks, SBool)}, SInt)
			card := T(app(f, Select(vc.cur.get(dc), a, arraySort(ks, SBool))), SInt)
			r := Ite(Eq(a, IntLit(0)), IntLit(0), card)
			def(r)
			vc.assume(Cmp("<=", IntLit(0), card))
		case *types.Pointer:
			at := c.Args[0].Type().Underlying().(*types.Pointer).Elem().Underlying().(*types.Array)
			def(IntLit(at.Len()))
		case *types.Array:
			def(IntLit(c.Args[0].Type().Underlying().(*types.Array).Len()))
		default:
			vc.abstract("len:" + c.Args[0].Type().String())
			if res != nil {
				vc.vals[res] = vc.freshVal("len", res.Type())
				vc.assume(Cmp("<=", IntLit(0), vc.vals[res].T))
			}
		}
	case "append":
		vc.execAppend(c, res)
	case "copy":
		vc.execCopy(c, res)
	case "delete":
		mt := c.Args[0].Type().Underlying().(*types.Map)
		m, k := vc.term(c.Args[0]), vc.term(c.Args[1])
		dc, _ := vc.mapComps(mt)
		ks := vc.sortOf(mt.Key())
		d := vc.cur.get(dc)
		nd := Store(d, m, Store(Select(d, m, arraySort(ks, SBool)), k, tFalse))
		vc.cur = vc.cur.set(dc, Ite(Eq(m, IntLit(0)), d, nd))
	case "print", "println":
	case "recover":
		if res != nil {
			vc.vals[res] = vc.freshVal("recover", res.Type())
		}
	case "min", "max":
		a, b2 := vc.term(c.Args[0]), vc.term(c.Args[1])
		if b.Name() == "min" {
			def(Ite(Cmp("<=", a, b2), a, b2))
		} else {
			def(Ite(Cmp(">=", a, b2), a, b2))
		}
	default:
		vc.abstract("builtin:" + b.Name())
		if res != nil {
			vc.vals[res] = vc.freshVal("builtin", res.Type())
		}
	}
}

// execAppend models append(s, t...) with both outcomes: in place when the
// capacity suffices, a fresh array otherwise (DESIGN §2.3).
func (vc *FuncVC) execAppend(c *ssa.CallCommon, res ssa.Value) {
	st := c.Args[0].Type().Underlying().(*types.Slice)
	elem := st.Elem()
	sArr, sOff, sLen, sCap, _ := vc.sliceParts(c.Args[0])
	var tArr, tOff, tLen Term
	strSrc := false
	var srcStr Term
	if vc.sortOf(c.Args[1].Type()) == SStr {
		strSrc = true
		srcStr = vc.term(c.Args[1])
		tLen = T(app("len", srcStr), SInt)
	} else {
		tArr, tOff, tLen, _, _ = vc.sliceParts(c.Args[1])
	}
	newLen := Arith("+", sLen, tLen)
	inPlace := vc.fresh("app.inplace", SBool)
	vc.assume(Implies(inPlace, Cmp("<=", newLen, sCap)))
	vc.assume(Implies(Cmp("<=", newLen, sCap), inPlace))
	a := vc.cur.get("alloc")
	nArr := vc.fresh("app.arr", SInt)
	vc.assume(Implies(Not(inPlace), And(Cmp("<", IntLit(0), nArr), Not(Select(a, nArr, SBool)), Eq(vc.baseOf(nArr), nArr))))
	vc.assume(Implies(inPlace, Eq(nArr, sArr)))
	vc.cur = vc.cur.set("alloc", Store(a, nArr, tTrue))
	{
		e := vc.named("esc", vc.cur.get("escaped"))
		vc.cur = vc.cur.set("escaped", Store(e, nArr, Ite(inPlace, Select(e, nArr, SBool), tFalse)))
	}
	nCap := vc.fresh("app.cap", SInt)
	vc.assume(Implies(inPlace, Eq(nCap, sCap)))
	vc.assume(Implies(Not(inPlace), And(Cmp("<=", newLen, nCap), Cmp("<=", nCap, T("72057594037927936", SInt)))))
	nOff := Ite(inPlace, sOff, IntLit(0))
	result := T(app("mk_slice", nArr, nOff, newLen, nCap), SSlice)
	// element effects
	comps := []string{}
	if isStruct(elem) {
		comps = vc.leafComps(elem, "")
	} else {
		comps = []string{vc.elemComp(elem)}
	}
	if isStruct(elem) {
		// per leaf component: new versions constrained pointwise through elemref
		er := vc.declFun("elemref", []string{SInt, SInt}, SInt)
		for _, cn := range comps {
			old := vc.cur.get(cn)
			nw := vc.fresh("app."+cn, vc.comps[cn])
			// copied prefix, appended part, everything else unchanged (absolute index j)
			vc.assume(T(fmt.Sprintf("(forall ((j Int)) (! (=> (and (<= %s j) (< j (+ %s %s))) (= (select %s (%s %s j)) (select %s (%s %s (+ %s (- j %s)))))) :pattern ((select %s (%s %s j)))))",
				nOff.S, nOff.S, sLen.S, nw.S, er, nArr.S, old.S, er, sArr.S, sOff.S, nOff.S, nw.S, er, nArr.S), SBool))
			if !strSrc {
				vc.assume(T(fmt.Sprintf("(forall ((j Int)) (! (=> (and (<= (+ %s %s) j) (< j (+ %s %s))) (= (select %s (%s %s j)) (select %s (%s %s (+ %s (- j (+ %s %s))))))) :pattern ((select %s (%s %s j)))))",
					nOff.S, sLen.S, nOff.S, newLen.S, nw.S, er, nArr.S, old.S, er, tArr.S, tOff.S, nOff.S, sLen.S, nw.S, er, nArr.S), SBool))
			}
			// frame: objects other than the written elements keep their fields
			vc.assume(T(fmt.Sprintf("(forall ((r Int)) (! (=> (not (exists ((j Int)) (and (<= (+ %s %s) j) (< j (+ %s %s)) (= r (%s %s j))))) (or (= (select %s r) (select %s r)) (not %s))) :pattern ((select %s r))))",
				nOff.S, sLen.S, nOff.S, newLen.S, er, nArr.S, nw.S, old.S, inPlace.S, nw.S), SBool))
			bf := vc.declFun("baseOf", []string{SInt}, SInt)
			vc.assume(T(fmt.Sprintf("(forall ((r Int)) (! (=> (and (not %s) (select %s (%s r))) (= (select %s r) (select %s r))) :pattern ((select %s r))))",
				inPlace.S, a.S, bf, nw.S, old.S, nw.S), SBool))
			vc.cur = vc.cur.set(cn, nw)
		}
		vc.onceAssume("elemref.alloc", T("(forall ((a Int) (j Int)) (! (> (|elemref| a j) 0) :pattern ((|elemref| a j))))", SBool))
		vc.note("append on a slice of structs: elements addressed through elemref(array, index); objects that are not elements of the written range keep their fields")
	} else {
		cn := comps[0]
		es := vc.sortOf(elem)
		old := vc.cur.get(cn)
		oldRow := Select(old, sArr, arraySort(SInt, es))
		nrow := vc.fresh("app.row", arraySort(SInt, es))
		// prefix preserved
		vc.assume(T(fmt.Sprintf("(forall ((j Int)) (! (=> (and (<= %s j) (< j (+ %s %s))) (= (select %s j) (select %s (+ %s (- j %s))))) :pattern ((select %s j))))",
			nOff.S, nOff.S, sLen.S, nrow.S, oldRow.S, sOff.S, nOff.S, nrow.S), SBool))
		// in place: everything outside the appended range is unchanged
		vc.assume(Implies(inPlace, T(fmt.Sprintf("(forall ((j Int)) (! (=> (or (< j (+ %s %s)) (>= j (+ %s %s))) (= (select %s j) (select %s j))) :pattern ((select %s j))))",
			sOff.S, sLen.S, sOff.S, newLen.S, nrow.S, oldRow.S, nrow.S), SBool)))
		if strSrc {
			vc.assume(T(fmt.Sprintf("(forall ((j Int)) (! (=> (and (<= (+ %s %s) j) (< j (+ %s %s))) (= (select %s j) (at %s (- j (+ %s %s))))) :pattern ((select %s j))))",
				nOff.S, sLen.S, nOff.S, newLen.S, nrow.S, srcStr.S, nOff.S, sLen.S, nrow.S), SBool))
		} else {
			srcRow := Select(old, tArr, arraySort(SInt, es))
			vc.assume(T(fmt.Sprintf("(forall ((j Int)) (! (=> (and (<= (+ %s %s) j) (< j (+ %s %s))) (= (select %s j) (select %s (+ %s (- j (+ %s %s)))))) :pattern ((select %s j))))",
				nOff.S, sLen.S, nOff.S, newLen.S, nrow.S, srcRow.S, tOff.S, nOff.S, sLen.S, nrow.S), SBool))
		}
		vc.cur = vc.cur.set(cn, Store(old, nArr, nrow))
	}
	if res != nil {
		vc.defineVal(res, &Val{T: result})
	}
}

func (vc *FuncVC) execCopy(c *ssa.CallCommon, res ssa.Value) {
	st := c.Args[0].Type().Underlying().(*types.Slice)
	elem := st.Elem()
	dArr, dOff, dLen, _, _ := vc.sliceParts(c.Args[0])
	var n Term
	if isStruct(elem) {
		vc.abstract("copy-structs")
		vc.cur = vc.cur.havocOnly(vc.leafComps(elem, ""), "copy")
		if res != nil {
			vc.vals[res] = vc.freshVal("copy", res.Type())
		}
		return
	}
	cn := vc.elemComp(elem)
	es := vc.sortOf(elem)
	old := vc.cur.get(cn)
	oldRow := Select(old, dArr, arraySort(SInt, es))
	nrow := vc.fresh("copy.row", arraySort(SInt, es))
	if vc.sortOf(c.Args[1].Type()) == SStr {
		s := vc.term(c.Args[1])
		sl := T(app("len", s), SInt)
		n = Ite(Cmp("<=", dLen, sl), dLen, sl)
		vc.assume(T(fmt.Sprintf("(forall ((j Int)) (! (=> (and (<= %s j) (< j (+ %s %s))) (= (select %s j) (at %s (- j %s)))) :pattern ((select %s j))))",
			dOff.S, dOff.S, n.S, nrow.S, s.S, dOff.S, nrow.S), SBool))
	} else {
		sArr, sOff, sLen, _, _ := vc.sliceParts(c.Args[1])
		n = Ite(Cmp("<=", dLen, sLen), dLen, sLen)
		srcRow := Select(old, sArr, arraySort(SInt, es))
		vc.assume(T(fmt.Sprintf("(forall ((j Int)) (! (=> (and (<= %s j) (< j (+ %s %s))) (= (select %s j) (select %s (+ %s (- j %s))))) :pattern ((select %s j))))",
			dOff.S, dOff.S, n.S, nrow.S, srcRow.S, sOff.S, dOff.S, nrow.S), SBool))
	}
	vc.assume(T(fmt.Sprintf("(forall ((j Int)) (! (=> (or (< j %s) (>= j (+ %s %s))) (= (select %s j) (select %s j))) :pattern ((select %s j))))",
		dOff.S, dOff.S, n.S, nrow.S, oldRow.S, nrow.S), SBool))
	vc.cur = vc.cur.set(cn, Store(old, dArr, nrow))
	if res != nil {
		vc.defineVal(res, &Val{T: n})
	}
}

// ---------- library functions with built-in definitions ----------

// hasAffix: strings.HasPrefix / strings.HasSuffix. A short literal affix is
// expanded to byte comparisons; otherwise an uninterpreted predicate with the
// facts that follow from it.
func (vc *FuncVC) hasAffix(s, p Term, lit *string, suffix bool) Term {
	if lit != nil && len(*lit) <= 16 {
		n := T(app("len", s), SInt)
		cs := []Term{Cmp(">=", n, IntLit(int64(len(*lit))))}
		for i := 0; i < len(*lit); i++ {
			var idx Term
			if !suffix {
				idx = IntLit(int64(i))
			} else {
				idx = Arith("+", Arith("-", n, IntLit(int64(len(*lit)))), IntLit(int64(i)))
			}
			cs = append(cs, Eq(T(app("at", s, idx), SInt), IntLit(int64((*lit)[i]))))
		}
		return And(cs...)
	}
	name := "strings.HasPrefix"
	if suffix {
		name = "strings.HasSuffix"
	}
	f := vc.declFun("pf!"+name+"!0", []string{SStr, SStr}, SBool)
	vc.onceAssume(name+".len", T(fmt.Sprintf("(forall ((s Str) (p Str)) (! (=> (%s s p) (<= (len p) (len s))) :pattern ((%s s p))))", f, f), SBool))
	if !suffix {
		vc.onceAssume(name+".at", T(fmt.Sprintf("(forall ((s Str) (p Str) (k Int)) (! (=> (and (%s s p) (<= 0 k) (< k (len p))) (= (at s k) (at p k))) :pattern ((%s s p) (at p k))))", f, f), SBool))
	}
	return T(app(f, s, p), SBool)
}

func (vc *FuncVC) libCall(name string, c *ssa.CallCommon, args []Term) (*Val, bool) {
	bt := types.Typ[types.Bool]
	switch name {
	case "strings.HasPrefix", "strings.HasSuffix":
		var lit *string
		if l, ok := constString(c.Args[1]); ok {
			lit = &l
		}
		return &Val{T: vc.hasAffix(args[0], args[1], lit, name == "strings.HasSuffix"), Typ: bt}, true
	}
	if op, ok := atomicOp(name); ok {
		// sync/atomic on one word: a plain load or store (the verifier follows one goroutine;
		// interleavings are outside what contracts decide)
		vc.checkNonNil(c.Args[0], name)
		if op == "load" {
			elem := c.Args[0].Type().Underlying().(*types.Pointer).Elem()
			return &Val{T: vc.load(vc.cur, c.Args[0]), Typ: elem}, true
		}
		vc.cur = vc.store(vc.cur, c.Args[0], args[1])
		return &Val{}, true
	}
	return nil, false
}

// atomicOp recognises the single-word loads and stores of sync/atomic.
func atomicOp(name string) (string, bool) {
	for _, t := range []string{"Int32", "Int64", "Uint32", "Uint64", "Uintptr"} {
		if name == "sync/atomic.Load"+t {
			return "load", true
		}
		if name == "sync/atomic.Store"+t {
			return "store", true
		}
	}
	return "", false
}

// ---------- defer / go ----------

func (vc *FuncVC) execRunDefers() {
	for i := len(vc.defers) - 1; i >= 0; i-- {
		d := vc.defers[i]
		// a deferred call runs iff its Defer instruction was reached
		pre := vc.cur
		saved := vc.reach[vc.curBlock]
		g := vc.declare(fmt.Sprintf("D!%d!%d", vc.curBlock.Index, i), SBool)
		vc.assume(Eq(g, And(saved, d.guard)))
		vc.reach[vc.curBlock] = g
		vc.execCall(d.instr, d.instr.Common(), nil)
		vc.reach[vc.curBlock] = saved
		if d.guard.S != saved.S {
			// merge executed / not executed
			st := vc.newState(stJoin, nil)
			st.preds = []predEdge{{g, vc.cur}, {Not(g), pre}}
			vc.cur = st
		}
	}
}

func (vc *FuncVC) execGo(x *ssa.Go) {
	name, kind, _ := vc.calleeName(x.Common())
	var args []Term
	for _, a := range x.Common().Args {
		args = append(args, vc.term(a))
	}
	for _, w := range vc.watches {
		pk, pn := splitWord(w.Pattern)
		if pk == "go" && (pn == name || pn == vc.P.shortName(name) || qualify(vc.C.Pkg, pn) == name) {
			vc.logCall(w, nil, args, nil)
			vc.watchHit[w.Label] = true
		}
	}
	_ = kind
	// the goroutine may run at any time: everything it can reach is unknown from here on
	vc.curInstr = x
	vc.havocOpaque("go:" + name)
	vc.note("go statement: the spawned function's effects are havoc'd from the spawn point on; interleavings are not modelled")
}

// ---------- frame check ----------

// frameRelevant: components subject to the frame check (caller-visible memory).
func (vc *FuncVC) frameRelevant(comp string) bool {
	if strings.Contains(comp, "#L") || strings.HasPrefix(comp, "IT!") || strings.HasPrefix(comp, "LG!") || comp == "clock" || comp == "alloc" || comp == "escaped" {
		return false
	}
	return true
}

// assignedLocs resolves the function's own assigns clause at entry.
func (vc *FuncVC) assignedLocs() map[string][]*Loc {
	if vc.assigned != nil {
		return vc.assigned
	}
	env := vc.newEnv(vc.entryState, vc.entryState)
	allowed := map[string][]*Loc{}
	for _, d := range vc.C.Assigns {
		if strings.HasPrefix(d, "comp:") {
			allowed[strings.TrimPrefix(d, "comp:")] = append(allowed[strings.TrimPrefix(d, "comp:")], nil)
			continue
		}
		if d == "\\opaque" || d == "\\everything" {
			vc.assignsOpaque = true
			continue
		}
		if strings.HasSuffix(d, "[*]") {
			e, err := ParseExpr(strings.TrimSuffix(d, "[*]"))
			if err != nil {
				panic(err)
			}
			sv := vc.eval(env, e)
			if mt, isMap := sv.Typ.Underlying().(*types.Map); isMap {
				dc, vn := vc.mapComps(mt)
				for _, c := range []string{dc, vn} {
					allowed[c] = append(allowed[c], &Loc{Comp: c, Ref: sv.T, Typ: mt.Elem()})
				}
				continue
			}
			sl := sv.Typ.Underlying().(*types.Slice)
			c := vc.elemComp(sl.Elem())
			allowed[c] = append(allowed[c], &Loc{Comp: c, Ref: T(app("s_arr", sv.T), SInt), Typ: sl.Elem()})
			continue
		}
		e, err := ParseExpr(d)
		if err != nil {
			panic(err)
		}
		for _, l := range vc.designatorLocs(env, e) {
			allowed[l.Comp] = append(allowed[l.Comp], l)
		}
	}
	vc.assigned = allowed
	return allowed
}

// frameFormula: comp is unchanged w.r.t. the entry state on every object that
// was allocated at entry, except the locations named by the assigns clause.
func (vc *FuncVC) frameFormula(comp string, st *State) Term {
	allowed := vc.assignedLocs()
	if vc.assignsOpaque && !vc.protected(comp) {
		return tTrue
	}
	now := st.get(comp)
	before := vc.entryState.get(comp)
	if now.S == before.S {
		return tTrue
	}
	for _, l := range allowed[comp] {
		if l == nil {
			return tTrue
		}
	}
	if strings.HasPrefix(comp, "G!") {
		if len(allowed[comp]) > 0 {
			return tTrue
		}
		return Eq(now, before)
	}
	a0 := vc.entryState.get("alloc")
	var exc []string
	for _, l := range allowed[comp] {
		exc = append(exc, fmt.Sprintf("(not (= r %s))", l.Ref.S))
	}
	b := vc.declFun("baseOf", []string{SInt}, SInt)
	vc.seq++
	// (address 0 is not an object: a nil slice has no elements)
	return T(fmt.Sprintf("(forall ((r Int)) (! (=> (and (not (= r 0)) (select %s (%s r)) %s) (= (select %s r) (select %s r))) :pattern ((select %s r))))", a0.S, b, strings.Join(append(exc, "true"), " "), now.S, before.S, now.S), SBool)
}

// checkFrame: at a return, every component outside the assigns clause is unchanged
// on objects that were allocated at entry.
func (vc *FuncVC) checkFrame() {
	if vc.C == nil || !vc.C.HasAssgn {
		return
	}
	for _, comp := range sortedKeys(vc.comps) {
		if !vc.frameRelevant(comp) {
			continue
		}
		vc.oblige("frame", "frame."+comp, vc.g(), vc.frameFormula(comp, vc.cur), "writes outside the assigns clause to "+comp)
	}
}

// applyEffects havocs the locations an `effect L ...` clause names: what a call-back
// from the opaque callee into this repository may have written.
func (vc *FuncVC) applyEffects(label string) {
	env := vc.newEnv(vc.cur, vc.entryState)
	for _, d := range vc.C.Effects[label] {
		if strings.HasSuffix(d, "[*]") {
			e, err := ParseExpr(strings.TrimSuffix(d, "[*]"))
			if err != nil {
				panic(fmt.Errorf("effect %q: %v", d, err))
			}
			sv := vc.eval(env, e)
			switch u := sv.Typ.Underlying().(type) {
			case *types.Map:
				dc, vn := vc.mapComps(u)
				for _, c := range []string{dc, vn} {
					_, row := arrayParts(vc.comps[c])
					vc.cur = vc.cur.set(c, Store(vc.cur.get(c), sv.T, vc.fresh("hvrow", row)))
				}
			case *types.Slice:
				if isStruct(u.Elem()) {
					panic(fmt.Errorf("effect %q: slice of non-struct elements expected", d))
				}
				c := vc.elemComp(u.Elem())
				_, row := arrayParts(vc.comps[c])
				vc.cur = vc.cur.set(c, Store(vc.cur.get(c), T(app("s_arr", sv.T), SInt), vc.fresh("hvrow", row)))
			default:
				panic(fmt.Errorf("effect %q: map or slice expected", d))
			}
			continue
		}
		e, err := ParseExpr(d)
		if err != nil {
			panic(fmt.Errorf("effect %q: %v", d, err))
		}
		for _, l := range vc.designatorLocs(env, e) {
			nv := vc.fresh("hv", vc.sortOf(l.Typ))
			vc.assume(vc.typeInv(nv, l.Typ))
			vc.assumeAllocated(nv, l.Typ)
			vc.cur = vc.storeLoc(vc.cur, l, nv)
		}
	}
	vc.note("call %s: call-backs may write %s", label, strings.Join(vc.C.Effects[label], ", "))
}

// effectComps: the heap components named by the effect clauses of a label (for loop prescans).
func (vc *FuncVC) effectComps(label string) []string {
	var out []string
	env := vc.newEnv(vc.entryState, vc.entryState)
	for _, d := range vc.C.Effects[label] {
		func() {
			defer func() {
				if r := recover(); r != nil {
					panic(fmt.Errorf("effect %q inside a loop must be resolvable from the parameters: %v", d, r))
				}
			}()
			if strings.HasSuffix(d, "[*]") {
				e, err := ParseExpr(strings.TrimSuffix(d, "[*]"))
				if err != nil {
					panic(err)
				}
				sv := vc.eval(env, e)
				switch u := sv.Typ.Underlying().(type) {
				case *types.Map:
					dc, vn := vc.mapComps(u)
					out = append(out, dc, vn)
				case *types.Slice:
					out = append(out, vc.elemComp(u.Elem()))
				}
				return
			}
			e, err := ParseExpr(d)
			if err != nil {
				panic(err)
			}
			for _, l := range vc.designatorLocs(env, e) {
				out = append(out, l.Comp)
			}
		}()
	}
	return out
}

// registerFieldComp makes sure a field component named in a contract ("F!<struct>!<field>") of a struct
// this function has not touched (yet) is registered, by finding the struct among the loaded types.
func (vc *FuncVC) registerFieldComp(comp string) {
	if _, ok := vc.comps[comp]; ok || !strings.HasPrefix(comp, "F!") {
		return
	}
	parts := strings.Split(strings.TrimPrefix(comp, "F!"), "!")
	if len(parts) != 2 {
		return
	}
	for _, sp := range vc.P.SSAPkgs {
		scope := sp.Pkg.Scope()
		for _, nm := range scope.Names() {
			tn, ok := scope.Lookup(nm).(*types.TypeName)
			if !ok {
				continue
			}
			if _, isStruct := tn.Type().Underlying().(*types.Struct); !isStruct || vc.typeName(tn.Type()) != parts[0] {
				continue
			}
			si := vc.structOf(tn.Type())
			for i, f := range si.Fields {
				if f.Name == parts[1] && !isStruct2(f.Type) {
					vc.fieldComp(si, i, "")
				}
			}
			return
		}
	}
}

func isStruct2(t types.Type) bool { return isStruct(t) }

// ---------- loop prescan ----------

// prescanLoops computes, for every loop, the set of heap components its body may write.
func (vc *FuncVC) prescanLoops() {
	for _, li := range vc.loops {
		for b := range li.blocks {
			for _, in := range b.Instrs {
				vc.prescanInstr(li, in)
			}
		}
		if li.havoc {
			comps, total := vc.escapingClosureWrites()
			for _, c := range comps {
				li.modset[c] = true
			}
			if total {
				vc.note("loop %d contains opaque calls and an escaping closure with unknown effects: protected components are not havoc'd at the loop head (unsound if the closure runs in the loop)", li.ordinal)
			}
		}
	}
}

func (vc *FuncVC) prescanInstr(li *loopInfo, in ssa.Instruction) {
	add := func(cs ...string) {
		for _, c := range cs {
			li.modset[c] = true
		}
	}
	switch x := in.(type) {
	case *ssa.Store:
		add(vc.storeComps(x.Addr)...)
		add("escaped")
	case *ssa.Alloc:
		add("alloc", "escaped")
		elem := x.Type().Underlying().(*types.Pointer).Elem()
		suffix := ""
		if vc.localAlloc[x] {
			suffix = "#L" + x.Name()
		}
		switch u := elem.Underlying().(type) {
		case *types.Struct:
			add(vc.leafComps(elem, suffix)...)
		case *types.Array:
			if !isStruct(u.Elem()) {
				add(vc.elemComp(u.Elem()))
			}
		default:
			add(vc.cellComp(elem, suffix))
		}
	case *ssa.MakeClosure:
		add("escaped")
	case *ssa.MakeSlice:
		add("alloc", "escaped")
		elem := x.Type().Underlying().(*types.Slice).Elem()
		if !isStruct(elem) {
			add(vc.elemComp(elem))
		}
	case *ssa.MakeMap:
		add("alloc", "escaped")
		dc, vn := vc.mapComps(x.Type().Underlying().(*types.Map))
		add(dc, vn)
	case *ssa.MapUpdate:
		dc, vn := vc.mapComps(x.Map.Type().Underlying().(*types.Map))
		add(dc, vn, "escaped")
	case *ssa.Convert:
		if vc.sortOf(x.X.Type()) == SStr && vc.sortOf(x.Type()) == SSlice {
			add("alloc", vc.elemComp(x.Type().Underlying().(*types.Slice).Elem()))
		}
	case *ssa.Range:
		add(vc.comp(fmt.Sprintf("IT!%s", x.Name()), SInt, true))
	case *ssa.Next:
		if r, ok := x.Iter.(*ssa.Range); ok {
			add(vc.comp(fmt.Sprintf("IT!%s", r.Name()), SInt, true))
		}
	case *ssa.Select, *ssa.Go:
		li.havoc = true
	case *ssa.UnOp:
		if x.Op.String() == "<-" {
			li.havoc = true
		}
	case *ssa.Defer:
		li.havoc = true
	case ssa.CallInstruction:
		add("escaped")
		vc.prescanCall(li, x.Common())
	}
}

func (vc *FuncVC) prescanCall(li *loopInfo, c *ssa.CallCommon) {
	add := func(cs ...string) {
		for _, x := range cs {
			li.modset[x] = true
		}
	}
	if b, ok := c.Value.(*ssa.Builtin); ok {
		switch b.Name() {
		case "append":
			add("alloc")
			elem := c.Args[0].Type().Underlying().(*types.Slice).Elem()
			if isStruct(elem) {
				add(vc.leafComps(elem, "")...)
			} else {
				add(vc.elemComp(elem))
			}
		case "copy":
			elem := c.Args[0].Type().Underlying().(*types.Slice).Elem()
			if isStruct(elem) {
				add(vc.leafComps(elem, "")...)
			} else {
				add(vc.elemComp(elem))
			}
		case "delete":
			dc, _ := vc.mapComps(c.Args[0].Type().Underlying().(*types.Map))
			add(dc)
		}
		return
	}
	name, kind, fn := vc.calleeName(c)
	for _, w := range vc.watches {
		if vc.matchWatch(w, name, kind) {
			add("clock")
			for comp := range vc.comps {
				if strings.HasPrefix(comp, "LG!"+w.Label+"!") {
					add(comp)
				}
			}
			li.logLabels = append(li.logLabels, w.Label)
			if vc.C != nil && len(vc.C.Effects[w.Label]) > 0 {
				add(vc.effectComps(w.Label)...)
			}
		}
	}
	for _, a := range c.Args {
		switch a.(type) {
		case *ssa.FieldAddr, *ssa.IndexAddr:
			add(vc.storeComps(a)...)
		}
	}
	con := vc.P.CS.Funcs[name]
	if con != nil && vc.C != nil && vc.C.Opaque[vc.P.shortName(name)] {
		con = nil
	}
	if con != nil {
		if con.Pure || (con.HasAssgn && len(con.Assigns) == 0) {
			return
		}
		if con.HasAssgn {
			var sig *types.Signature
			if fn != nil {
				sig = fn.Signature
			} else {
				sig = c.Signature()
			}
			cs, all := vc.designatorComps(con, sig, c)
			if all {
				li.havoc = true
			}
			add(cs...)
			return
		}
		li.havoc = true
		return
	}
	if _, ok := vc.libCall0(name); ok {
		if op, _ := atomicOp(name); op == "store" {
			add(vc.storeComps(c.Args[0])...)
		}
		return
	}
	li.havoc = true
}

// libCall0 reports whether name is handled by libCall (side-effect free).
func (vc *FuncVC) libCall0(name string) (string, bool) {
	switch name {
	case "strings.HasPrefix", "strings.HasSuffix":
		return name, true
	}
	if _, ok := atomicOp(name); ok {
		return name, true
	}
	return "", false
}

// designatorComps statically resolves the components named by a callee's assigns clause.
func (vc *FuncVC) designatorComps(con *Contract, sig *types.Signature, c *ssa.CallCommon) (comps []string, all bool) {
	names := formalNames(con, sig, c.IsInvoke())
	var recvT types.Type
	if c.IsInvoke() {
		recvT = c.Value.Type()
	}
	ptypes := paramTypes(sig, c.IsInvoke(), recvT)
	typeOfName := map[string]types.Type{}
	for i, n := range names {
		if i < len(ptypes) {
			typeOfName[n] = ptypes[i]
		}
	}
	var typeOf func(e Expr) types.Type
	typeOf = func(e Expr) types.Type {
		switch x := e.(type) {
		case *EIdent:
			return typeOfName[x.Name]
		case *EField:
			bt := typeOf(x.X)
			if bt == nil {
				return nil
			}
			if p, ok := bt.Underlying().(*types.Pointer); ok {
				bt = p.Elem()
			}
			st, ok := bt.Underlying().(*types.Struct)
			if !ok {
				return nil
			}
			for i := 0; i < st.NumFields(); i++ {
				if st.Field(i).Name() == x.Name {
					return st.Field(i).Type()
				}
			}
		case *EUnary:
			if x.Op == "*" {
				bt := typeOf(x.X)
				if bt == nil {
					return nil
				}
				if p, ok := bt.Underlying().(*types.Pointer); ok {
					return p.Elem()
				}
			}
		}
		return nil
	}
	for _, d := range con.Assigns {
		if strings.HasPrefix(d, "comp:") {
			vc.registerFieldComp(strings.TrimPrefix(d, "comp:"))
			comps = append(comps, strings.TrimPrefix(d, "comp:"))
			continue
		}
		if d == "\\everything" || d == "\\opaque" {
			all = true
			continue
		}
		if strings.HasSuffix(d, "[*]") {
			e, err := ParseExpr(strings.TrimSuffix(d, "[*]"))
			if err != nil {
				return nil, true
			}
			t := typeOf(e)
			if t == nil {
				return nil, true
			}
			if mt, isMap := t.Underlying().(*types.Map); isMap {
				dc, vn := vc.mapComps(mt)
				comps = append(comps, dc, vn)
				continue
			}
			sl, ok := t.Underlying().(*types.Slice)
			if !ok || isStruct(sl.Elem()) {
				return nil, true
			}
			comps = append(comps, vc.elemComp(sl.Elem()))
			continue
		}
		e, err := ParseExpr(d)
		if err != nil {
			return nil, true
		}
		switch x := e.(type) {
		case *EField:
			bt := typeOf(x.X)
			if bt == nil {
				return nil, true
			}
			if p, ok := bt.Underlying().(*types.Pointer); ok {
				bt = p.Elem()
			}
			if !isStruct(bt) {
				return nil, true
			}
			si := vc.structOf(bt)
			found := false
			for i, f := range si.Fields {
				if f.Name == x.Name {
					found = true
					if isStruct(f.Type) {
						comps = append(comps, vc.leafComps(f.Type, "")...)
					} else {
						comps = append(comps, vc.fieldComp(si, i, ""))
					}
				}
			}
			if !found {
				return nil, true
			}
		case *EUnary:
			t := typeOf(x)
			if t == nil {
				return nil, true
			}
			if isStruct(t) {
				comps = append(comps, vc.leafComps(t, "")...)
			} else {
				comps = append(comps, vc.cellComp(t, ""))
			}
		default:
			return nil, true
		}
	}
	return comps, false
}

// varargsArray recognises `slice (new [N]T (varargs))[:]` and returns the array allocation.
func varargsArray(v ssa.Value) (*ssa.Alloc, int, types.Type) {
	sl, ok := v.(*ssa.Slice)
	if !ok || sl.Low != nil || sl.High != nil {
		return nil, 0, nil
	}
	a, ok := sl.X.(*ssa.Alloc)
	if !ok {
		return nil, 0, nil
	}
	at, ok := a.Type().Underlying().(*types.Pointer).Elem().Underlying().(*types.Array)
	if !ok || at.Len() > 8 {
		return nil, 0, nil
	}
	return a, int(at.Len()), at.Elem()
}

// stableFormula: the stable designator d denotes in state st the same content as at entry.
func (vc *FuncVC) stableFormula(d string, st *State) Term {
	if strings.HasPrefix(d, "comp:") {
		return tTrue
	}
	entry := vc.entryState
	env := vc.newEnv(entry, entry)
	if strings.HasSuffix(d, "[*][*]") {
		return And(vc.stableFormula(strings.TrimSuffix(d, "[*]"), st), vc.mapSliceStable(d, entry, st))
	}
	if strings.HasSuffix(d, "[*]") {
		e, err := ParseExpr(strings.TrimSuffix(d, "[*]"))
		if err != nil {
			panic(err)
		}
		sv := vc.eval(env, e)
		if mt, isMap := sv.Typ.Underlying().(*types.Map); isMap {
			dc, vn := vc.mapComps(mt)
			var cs []Term
			for _, c := range []string{dc, vn} {
				_, row := arrayParts(vc.comps[c])
				cs = append(cs, Eq(Select(st.get(c), sv.T, row), Select(entry.get(c), sv.T, row)))
			}
			return And(cs...)
		}
		sl := sv.Typ.Underlying().(*types.Slice)
		if isStruct(sl.Elem()) {
			return tTrue
		}
		c := vc.elemComp(sl.Elem())
		_, row := arrayParts(vc.comps[c])
		arr := T(app("s_arr", sv.T), SInt)
		return Eq(Select(st.get(c), arr, row), Select(entry.get(c), arr, row))
	}
	e, err := ParseExpr(d)
	if err != nil {
		panic(err)
	}
	var cs []Term
	for _, l := range vc.designatorLocs(env, e) {
		cs = append(cs, Eq(vc.loadLoc(st, l), vc.loadLoc(entry, l)))
	}
	return And(cs...)
}

// mapSliceStable (stable m[*][*], m a map of slices): the elements of every slice
// the map holds in state from are the same in state to.
func (vc *FuncVC) mapSliceStable(d string, from, to *State) Term {
	e, err := ParseExpr(strings.TrimSuffix(d, "[*][*]"))
	if err != nil {
		panic(err)
	}
	sv := vc.eval(vc.newEnv(from, vc.entryState), e)
	mt, isMap := sv.Typ.Underlying().(*types.Map)
	if !isMap {
		panic(fmt.Errorf("stable %s: a map of slices is expected", d))
	}
	sl, isSlice := mt.Elem().Underlying().(*types.Slice)
	if !isSlice || isStruct(sl.Elem()) {
		panic(fmt.Errorf("stable %s: a map of slices of non-struct elements is expected", d))
	}
	dc, vn := vc.mapComps(mt)
	ks := vc.sortOf(mt.Key())
	c := vc.elemComp(sl.Elem())
	if to.get(c).S == from.get(c).S {
		return tTrue
	}
	_, row := arrayParts(vc.comps[c])
	dom := vc.named("stbd", Select(from.get(dc), sv.T, arraySort(ks, SBool)))
	val := vc.named("stbv", Select(from.get(vn), sv.T, arraySort(ks, SSlice)))
	cur := vc.named("stb", to.get(c))
	old := vc.named("stb0", from.get(c))
	k := T("|q!stk|", ks)
	arr := T(app("s_arr", Select(val, k, SSlice)), SInt)
	return T(fmt.Sprintf("(forall ((|q!stk| %s)) (! (=> %s (= %s %s)) :pattern (%s)))", ks, Select(dom, k, SBool).S, Select(cur, arr, row).S, Select(old, arr, row).S, Select(val, k, SSlice).S), SBool)
}

// escapingClosureWrites: the heap components written by closures of this function
// whose value is used other than by calling it directly. total=true when such a
// closure calls further code (its effect is then unknown).
func (vc *FuncVC) escapingClosureWrites() (comps []string, total bool) {
	if vc.cloWritesDone {
		return vc.cloWrites, vc.cloTotal
	}
	vc.cloWritesDone = true
	set := map[string]bool{}
	for _, b := range vc.Fn.Blocks {
		for _, in := range b.Instrs {
			mc, ok := in.(*ssa.MakeClosure)
			if !ok {
				continue
			}
			escapes := false
			if refs := mc.Referrers(); refs != nil {
				for _, r := range *refs {
					switch u := r.(type) {
					case *ssa.DebugRef:
					case ssa.CallInstruction:
						if u.Common().Value != mc {
							escapes = true
						}
						if _, isDefer := r.(*ssa.Defer); isDefer && u.Common().Value == mc {
							// deferred direct call: executed by RunDefers, modelled there
						}
						if _, isGo := r.(*ssa.Go); isGo {
							escapes = true
						}
					default:
						escapes = true
					}
				}
			}
			if !escapes {
				continue
			}
			vc.scanFnWrites(mc.Fn.(*ssa.Function), set, 0)
		}
	}
	vc.cloWrites = sortedKeys(set)
	return vc.cloWrites, vc.cloTotal
}

// scanFnWrites collects the heap components a function body may write; callees inside
// the repository without a usable frame are scanned recursively (bounded), anything
// deeper makes the effect unknown (cloTotal).
func (vc *FuncVC) scanFnWrites(fn *ssa.Function, set map[string]bool, depth int) {
	if fn.Blocks == nil || depth > 3 {
		vc.cloTotal = true
		return
	}
	for _, fb := range fn.Blocks {
		for _, fi := range fb.Instrs {
			switch x := fi.(type) {
			case *ssa.Store:
				for _, c := range vc.storeComps(x.Addr) {
					set[c] = true
				}
			case *ssa.MapUpdate:
				dc, vn := vc.mapComps(x.Map.Type().Underlying().(*types.Map))
				set[dc], set[vn] = true, true
			case ssa.CallInstruction:
				if bi, ok := x.Common().Value.(*ssa.Builtin); ok {
					switch bi.Name() {
					case "append", "copy":
						elem := x.Common().Args[0].Type().Underlying().(*types.Slice).Elem()
						if isStruct(elem) {
							for _, c := range vc.leafComps(elem, "") {
								set[c] = true
							}
						} else {
							set[vc.elemComp(elem)] = true
						}
					case "delete":
						dc, _ := vc.mapComps(x.Common().Args[0].Type().Underlying().(*types.Map))
						set[dc] = true
					}
					continue
				}
				name, _, callee := vc.calleeName(x.Common())
				if con := vc.P.CS.Funcs[name]; con != nil && (con.Pure || (con.HasAssgn && len(con.Assigns) == 0)) {
					continue
				}
				if con := vc.P.CS.Funcs[name]; con != nil && con.HasAssgn && len(con.Assigns) == 1 && con.Assigns[0] == "\\opaque" {
					// writes nothing that opaque code could not write
					continue
				}
				if _, ok := vc.libCall0(name); ok {
					if op, _ := atomicOp(name); op == "store" {
						for _, c := range vc.storeComps(x.Common().Args[0]) {
							set[c] = true
						}
					}
					continue
				}
				// calls that leave the repository (interface methods, func values, library
				// functions) have the effect of any opaque call: nothing protected is written
				if callee == nil || !vc.P.inRepoPkg(pkgOf(callee)) {
					continue
				}
				vc.scanFnWrites(callee, set, depth+1)
			}
		}
	}
}

// preserveContainer: an unescaped slice or map built by this function keeps its
// elements across an opaque call.
func (vc *FuncVC) preserveContainer(pre *State, a ssa.Value) {
	av := vc.vals[a]
	if av == nil || av.T.S == "" {
		return
	}
	switch u := a.Type().Underlying().(type) {
	case *types.Slice:
		if isStruct(u.Elem()) {
			return
		}
		c := vc.elemComp(u.Elem())
		_, row := arrayParts(vc.comps[c])
		arr := T(app("s_arr", av.T), SInt)
		vc.assume(Eq(Select(vc.cur.get(c), arr, row), Select(pre.get(c), arr, row)))
	case *types.Map:
		dc, vn := vc.mapComps(u)
		for _, c := range []string{dc, vn} {
			_, row := arrayParts(vc.comps[c])
			vc.assume(Eq(Select(vc.cur.get(c), av.T, row), Select(pre.get(c), av.T, row)))
		}
	}
}
