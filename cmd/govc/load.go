package main

import (
	"fmt"
	"go/types"
	"os"
	"strings"

	"golang.org/x/tools/go/packages"
	"golang.org/x/tools/go/ssa"
	"golang.org/x/tools/go/ssa/ssautil"
)

// Prog is the loaded repository: packages, SSA and contracts.
type Prog struct {
	Repo    string
	ModPath string
	Pkgs    []*packages.Package
	SSA     *ssa.Program
	CS      *ContractSet
	Funcs   map[string]*ssa.Function // by fn.String()
	SSAPkgs map[string]*ssa.Package
	logInfo map[string]map[string]logCompInfo
	logBusy map[string]bool
}

type logCompInfo struct {
	sort string
	typ  types.Type
}

// calleeLogInfo returns the sorts (and Go types) of the call-log components of a
// contracted function, obtained by generating (not discharging) its VCs once.
func (p *Prog) calleeLogInfo(name string) map[string]logCompInfo {
	if p.logInfo == nil {
		p.logInfo = map[string]map[string]logCompInfo{}
		p.logBusy = map[string]bool{}
	}
	if m, ok := p.logInfo[name]; ok {
		return m
	}
	m := map[string]logCompInfo{}
	p.logInfo[name] = m
	fn, con := p.Funcs[name], p.CS.Funcs[name]
	if fn == nil || con == nil || fn.Blocks == nil || p.logBusy[name] {
		return m
	}
	p.logBusy[name] = true
	vc := NewFuncVC(p, fn, con)
	func() {
		defer func() { recover() }()
		_ = vc.Run()
	}()
	for comp, sort := range vc.comps {
		if strings.HasPrefix(comp, "LG!") {
			m[comp[3:]] = logCompInfo{sort, vc.logTypes[comp]}
		}
	}
	p.logBusy[name] = false
	return m
}

func LoadProg(repo string, patterns []string, specDir string) (*Prog, error) {
	cfg := &packages.Config{
		Mode:       packages.LoadAllSyntax | packages.NeedModule,
		Dir:        repo,
		BuildFlags: []string{"-tags=verif"},
		Env:        append(os.Environ(), "GOFLAGS=-mod=mod", "GOPROXY=off", "GOSUMDB=off", "GOTOOLCHAIN=local"),
	}
	pkgs, err := packages.Load(cfg, patterns...)
	if err != nil {
		return nil, err
	}
	var errs []string
	for _, p := range pkgs {
		for _, e := range p.Errors {
			errs = append(errs, e.Error())
		}
	}
	if len(errs) > 0 {
		return nil, fmt.Errorf("package errors:\n%s", strings.Join(errs, "\n"))
	}
	prog, ssapkgs := ssautil.AllPackages(pkgs, ssa.GlobalDebug|ssa.InstantiateGenerics)
	p := &Prog{Repo: repo, Pkgs: pkgs, SSA: prog, Funcs: map[string]*ssa.Function{}, SSAPkgs: map[string]*ssa.Package{}}
	for i, sp := range ssapkgs {
		if sp == nil {
			continue
		}
		sp.Build()
		p.SSAPkgs[pkgs[i].PkgPath] = sp
		if pkgs[i].Module != nil && p.ModPath == "" {
			p.ModPath = pkgs[i].Module.Path
		}
	}
	// build the bodies of every package of the repository module (dependencies of the
	// requested packages included), so that callee contracts can be inspected
	for _, sp := range prog.AllPackages() {
		if sp.Pkg != nil && p.ModPath != "" && (sp.Pkg.Path() == p.ModPath || strings.HasPrefix(sp.Pkg.Path(), p.ModPath+"/")) {
			sp.Build()
			if _, ok := p.SSAPkgs[sp.Pkg.Path()]; !ok {
				p.SSAPkgs[sp.Pkg.Path()] = sp
			}
		}
	}
	for fn := range ssautil.AllFunctions(prog) {
		p.Funcs[fn.String()] = fn
	}
	p.CS = NewContractSet()
	if err := p.CS.LoadRepoContracts(repo, p.ModPath); err != nil {
		return nil, err
	}
	if specDir != "" {
		if err := p.CS.LoadSpecDir(specDir); err != nil {
			return nil, err
		}
	}
	return p, nil
}

// inRepo reports whether a named type / object belongs to the repository module.
func (p *Prog) inRepoPkg(pkg *types.Package) bool {
	if pkg == nil {
		return false
	}
	return pkg.Path() == p.ModPath || strings.HasPrefix(pkg.Path(), p.ModPath+"/")
}

// shortName strips the module path from a qualified name for display.
func (p *Prog) shortName(full string) string {
	s := strings.ReplaceAll(full, p.ModPath+"/", "")
	s = strings.ReplaceAll(s, p.ModPath+".", "runtime.")
	return s
}
