package main

import (
	"fmt"
	"math/big"
	"sort"
	"strings"
)

// Term is an SMT-LIB term with its sort name.
type Term struct {
	S    string
	Sort string
}

const (
	SInt   = "Int"
	SBool  = "Bool"
	SReal  = "Real"
	SStr   = "Str"
	SSlice = "Slice"
	SIface = "Iface"
)

func T(s, sort string) Term { return Term{s, sort} }

func app(op string, args ...Term) string {
	var b strings.Builder
	b.WriteByte('(')
	b.WriteString(op)
	for _, a := range args {
		b.WriteByte(' ')
		b.WriteString(a.S)
	}
	b.WriteByte(')')
	return b.String()
}

var (
	tTrue  = Term{"true", SBool}
	tFalse = Term{"false", SBool}
)

func IntLit(n int64) Term {
	if n < 0 {
		return Term{fmt.Sprintf("(- %d)", -n), SInt}
	}
	return Term{fmt.Sprintf("%d", n), SInt}
}

func BigLit(n *big.Int) Term {
	if n.Sign() < 0 {
		return Term{"(- " + new(big.Int).Neg(n).String() + ")", SInt}
	}
	return Term{n.String(), SInt}
}

func And(ts ...Term) Term {
	var xs []Term
	for _, t := range ts {
		if t.S == "true" {
			continue
		}
		if t.S == "false" {
			return tFalse
		}
		xs = append(xs, t)
	}
	switch len(xs) {
	case 0:
		return tTrue
	case 1:
		return xs[0]
	}
	return Term{app("and", xs...), SBool}
}

func Or(ts ...Term) Term {
	var xs []Term
	for _, t := range ts {
		if t.S == "false" {
			continue
		}
		if t.S == "true" {
			return tTrue
		}
		xs = append(xs, t)
	}
	switch len(xs) {
	case 0:
		return tFalse
	case 1:
		return xs[0]
	}
	return Term{app("or", xs...), SBool}
}

func Not(t Term) Term {
	if t.S == "true" {
		return tFalse
	}
	if t.S == "false" {
		return tTrue
	}
	return Term{app("not", t), SBool}
}

func Implies(a, b Term) Term {
	if a.S == "true" {
		return b
	}
	if a.S == "false" || b.S == "true" {
		return tTrue
	}
	return Term{app("=>", a, b), SBool}
}

func Eq(a, b Term) Term {
	if a.S == b.S {
		return tTrue
	}
	if a.Sort == SReal && b.Sort == SInt {
		b = ToReal(b)
	}
	if a.Sort == SInt && b.Sort == SReal {
		a = ToReal(a)
	}
	return Term{app("=", a, b), SBool}
}

func Ite(c, a, b Term) Term {
	if c.S == "true" {
		return a
	}
	if c.S == "false" {
		return b
	}
	if a.S == b.S {
		return a
	}
	return Term{app("ite", c, a, b), a.Sort}
}

func ToReal(a Term) Term {
	if a.Sort == SReal {
		return a
	}
	return Term{app("to_real", a), SReal}
}

func Arith(op string, a, b Term) Term {
	s := SInt
	if a.Sort == SReal || b.Sort == SReal {
		a, b = ToReal(a), ToReal(b)
		s = SReal
	}
	return Term{app(op, a, b), s}
}

func Cmp(op string, a, b Term) Term {
	if a.Sort == SReal || b.Sort == SReal {
		a, b = ToReal(a), ToReal(b)
	}
	return Term{app(op, a, b), SBool}
}

func Select(arr, idx Term, elemSort string) Term {
	return Term{app("select", arr, idx), elemSort}
}

func Store(arr, idx, v Term) Term {
	return Term{app("store", arr, idx, v), arr.Sort}
}

func arraySort(idx, elem string) string { return "(Array " + idx + " " + elem + ")" }

// arrayElemSort parses "(Array I E)" and returns I, E.
func arrayParts(s string) (string, string) {
	if !strings.HasPrefix(s, "(Array ") {
		panic("not an array sort: " + s)
	}
	body := s[len("(Array ") : len(s)-1]
	// split at top-level space
	depth := 0
	for i := 0; i < len(body); i++ {
		switch body[i] {
		case '(':
			depth++
		case ')':
			depth--
		case ' ':
			if depth == 0 {
				return body[:i], body[i+1:]
			}
		}
	}
	panic("bad array sort: " + s)
}

// sanitize makes a string usable inside an SMT-LIB |quoted| symbol.
func sanitize(s string) string {
	r := strings.NewReplacer("|", "!", "\\", "!", " ", "_", "\t", "_", "\n", "_")
	return r.Replace(s)
}

func sym(s string) string { return "|" + sanitize(s) + "|" }

// sortedKeys returns the sorted keys of a string-keyed map.
func sortedKeys[V any](m map[string]V) []string {
	ks := make([]string, 0, len(m))
	for k := range m {
		ks = append(ks, k)
	}
	sort.Strings(ks)
	return ks
}
