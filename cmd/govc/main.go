package main

import (
	"flag"
	"fmt"
	"os"
	"regexp"
	"sort"
	"strings"
	"time"
)

func main() {
	if len(os.Args) < 2 {
		fmt.Fprintln(os.Stderr, "usage: govc verify|check ...")
		os.Exit(2)
	}
	switch os.Args[1] {
	case "verify":
		cmdVerify(os.Args[2:])
	case "check":
		cmdCheck(os.Args[2:])
	case "selftest":
		cmdSelftest(os.Args[2:])
	case "mutants":
		cmdMutants(os.Args[2:])
	default:
		fmt.Fprintln(os.Stderr, "unknown subcommand", os.Args[1])
		os.Exit(2)
	}
}

func verifDir() string {
	if d := os.Getenv("VERIF_DIR"); d != "" {
		return d
	}
	return "/verif"
}

// cmdVerify: developer entry point — verify the functions matching a regexp.
func cmdVerify(args []string) {
	fs := flag.NewFlagSet("verify", flag.ExitOnError)
	repo := fs.String("repo", "/repo", "repository")
	pkgs := fs.String("pkgs", "./...", "package patterns (comma separated)")
	fnre := fs.String("fn", "", "regexp on function names (short form)")
	timeout := fs.Int("t", 10, "solver timeout (s)")
	keep := fs.String("keep", "", "directory for failed queries")
	dump := fs.Bool("dump", false, "print the VC lines")
	all := fs.Bool("all", false, "also verify functions without a contract (safety sweep)")
	verbose := fs.Bool("v", false, "print every obligation")
	ssaDump := fs.Bool("ssa", false, "print the SSA form and the loop ordinals of the selected functions, then stop")
	fs.Parse(args)
	t0 := time.Now()
	p, err := LoadProg(*repo, strings.Split(*pkgs, ","), verifDir()+"/specs")
	if err != nil {
		fmt.Fprintln(os.Stderr, err)
		os.Exit(2)
	}
	fmt.Printf("loaded in %.1fs; %d contracts\n", time.Since(t0).Seconds(), len(p.CS.Funcs))
	re := regexp.MustCompile(*fnre)
	var names []string
	for name, fn := range p.Funcs {
		if fn.Blocks == nil || !p.inRepoPkg(pkgOf(fn)) {
			continue
		}
		if !re.MatchString(p.shortName(name)) {
			continue
		}
		if p.CS.Funcs[name] == nil && !*all {
			continue
		}
		names = append(names, name)
	}
	sort.Strings(names)
	bad := 0
	for _, name := range names {
		fn := p.Funcs[name]
		con := p.CS.Funcs[name]
		if con != nil && con.Trusted {
			continue
		}
		if *ssaDump {
			fn.WriteTo(os.Stdout)
			vc := NewFuncVC(p, fn, nil)
			vc.analyzeLoops()
			for h, li := range vc.loops {
				fmt.Printf("# loop %d: header block %d\n", li.ordinal, h.Index)
			}
			continue
		}
		vc := NewFuncVC(p, fn, con)
		if err := vc.Run(); err != nil {
			fmt.Printf("ERROR %s: %v\n", p.shortName(name), err)
			bad++
			continue
		}
		if *dump {
			fmt.Println(vc.prelude())
			for i, l := range vc.lines {
				fmt.Printf("%4d %s\n", i, l)
			}
		}
		vc.Discharge(*timeout, 16, *keep)
		nd := 0
		for _, o := range vc.obls {
			if o.Status == "discharged" || o.Status == "covered" {
				nd++
			}
		}
		fmt.Printf("== %s: %d/%d obligations ok, %d instrs (%d abstracted)\n", p.shortName(name), nd, len(vc.obls), vc.nInstr, vc.nAbstract)
		for _, o := range vc.obls {
			if *verbose {
				fmt.Printf("   %-10s %s [%s %dms]\n", o.Status, o.Name, o.Solver, o.Ms)
			}
			if o.Status == "vacuous" && !strings.HasSuffix(o.Name, "#cover.pre") {
				fmt.Printf("   (unreachable return: %s)\n", o.Name)
				continue
			}
			if o.Status != "discharged" && o.Status != "covered" {
				bad++
				fmt.Printf("   %-10s %s  [%s %dms] %s %s\n", o.Status, o.Name, o.Solver, o.Ms, o.Desc, o.File)
			}
		}
		for _, n := range vc.notes {
			fmt.Printf("   note: %s\n", n)
		}
		if len(vc.abstracted) > 0 {
			fmt.Printf("   abstracted: %v\n", vc.abstracted)
		}
	}
	fmt.Printf("total %.1fs\n", time.Since(t0).Seconds())
	if bad > 0 {
		os.Exit(1)
	}
}

func cmdSelftest(args []string) {}
