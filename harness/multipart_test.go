package client

// Bounded stand-in (not a proof): the contracts of buildHTTP and of its writer goroutine state which multipart
// calls are made with which arguments, one part per field value and per file; that the document on the wire
// "contains every form-field value and every file exactly once with its field name, base file name, full content
// and part Content-Type" is a law of mime/multipart (library) plus a count over nested iterations that the
// contracts state only as "at least once". It is checked here on requests BUILT from their parts: the document
// is parsed back with the library's reader and compared with what was put in. Injected with `go test -overlay`
// by /verif's check of C11.

import (
	"bytes"
	"fmt"
	"io"
	"math/rand"
	"mime"
	"mime/multipart"
	"net/http"
	"os"
	"sort"
	"strconv"
	"strings"
	"testing"
	"testing/iotest"

	"github.com/go-openapi/runtime"
	"github.com/go-openapi/strfmt"
)

type govcTypedFile struct {
	runtime.NamedReadCloser
	ct string
}

func (f govcTypedFile) ContentType() string { return f.ct }

type govcCloseCounter struct {
	io.Reader
	closed *int
}

func (c govcCloseCounter) Close() error { *c.closed++; return nil }

func TestGovcStandInMultipart(t *testing.T) {
	seed, _ := strconv.ParseInt(os.Getenv("VERIF_SEED"), 10, 64)
	rounds := 40
	if os.Getenv("VERIF_TIER") == "thorough" {
		rounds = 1500
	}
	r := rand.New(rand.NewSource(seed + 5))
	fieldNames := []string{"a", "b c", "na\"me", "é", "x\\y"}
	fileNames := []string{"f.txt", "dir/sub/g.bin", "we\"ird.txt", "é.png", "no-ext"}
	values := []string{"", "v", "two words", "é", "a=b&c", "line\r\nbreak", "--boundary--"}
	sizes := []int{0, 1, 13, 511, 512, 513, 5000, 70000}
	checks := 0
	for i := 0; i < rounds; i++ {
		type fileIn struct {
			field, name, ct string
			content     []byte
			closed      int
		}
		form := map[string][]string{}
		var files []*fileIn
		for _, f := range fieldNames[:1+r.Intn(len(fieldNames))] {
			if r.Intn(2) == 0 {
				n := 1 + r.Intn(3)
				for k := 0; k < n; k++ {
					form[f] = append(form[f], values[r.Intn(len(values))])
				}
			}
		}
		nfiles := r.Intn(4)
		if len(form) == 0 && nfiles == 0 {
			nfiles = 1
		}
		for k := 0; k < nfiles; k++ {
			n := sizes[r.Intn(len(sizes))]
			if n > 6000 && i%8 != 0 {
				n = r.Intn(600)
			}
			content := make([]byte, n)
			for j := range content {
				if r.Intn(3) == 0 {
					content[j] = byte(r.Intn(256))
				} else {
					content[j] = "text \n"[r.Intn(6)]
				}
			}
			fi := &fileIn{field: []string{"file", "up load", "f\"q"}[r.Intn(3)], name: fileNames[r.Intn(len(fileNames))], content: content}
			if r.Intn(2) == 0 {
				fi.ct = []string{"image/png", "text/csv; charset=utf-8", "application/x-custom"}[r.Intn(3)]
			}
			files = append(files, fi)
		}
		req := newRequest(http.MethodPost, "/upload", runtime.ClientRequestWriterFunc(func(rq runtime.ClientRequest, _ strfmt.Registry) error {
			for f, vs := range form {
				if err := rq.SetFormParam(f, vs...); err != nil {
					return err
				}
			}
			byField := map[string][]runtime.NamedReadCloser{}
			var order []string
			for _, fi := range files {
				var rd io.Reader = bytes.NewReader(fi.content)
				switch r.Intn(3) {
				case 1:
					rd = iotest.OneByteReader(rd)
				case 2:
					rd = iotest.DataErrReader(rd)
				}
				var nr runtime.NamedReadCloser = runtime.NamedReader(fi.name, govcCloseCounter{rd, &fi.closed})
				if fi.ct != "" {
					nr = govcTypedFile{nr, fi.ct}
				}
				if _, seen := byField[fi.field]; !seen {
					order = append(order, fi.field)
				}
				byField[fi.field] = append(byField[fi.field], nr)
			}
			for _, f := range order {
				if err := rq.SetFileParam(f, byField[f]...); err != nil {
					return err
				}
			}
			return nil
		}))
		// the operation's media type: with a file parameter every media type is sent as a multipart document
		// (application/x-www-form-urlencoded is left out: known finding client.mangleContentType#post.C11:describesurlencoded~2)
		opMediaType := runtime.MultipartFormMime
		if len(files) > 0 {
			opMediaType = []string{runtime.MultipartFormMime, runtime.JSONMime, "application/octet-stream", "Multipart/Form-Data"}[r.Intn(4)]
		}
		hr, err := req.BuildHTTP(opMediaType, "/api", nil, strfmt.Default)
		if err != nil {
			t.Fatalf("GOVC-STANDIN-FAIL building the upload (form %q, %d files): %v", form, len(files), err)
		}
		mt, params, err := mime.ParseMediaType(hr.Header.Get("Content-Type"))
		if err != nil || mt != "multipart/form-data" || params["boundary"] == "" {
			t.Fatalf("GOVC-STANDIN-FAIL Content-Type %q does not describe a multipart document", hr.Header.Get("Content-Type"))
		}
		mr := multipart.NewReader(hr.Body, params["boundary"])
		gotForm := map[string][]string{}
		type fileOut struct {
			field, name, ct string
			content     []byte
		}
		var gotFiles []fileOut
		for {
			part, err := mr.NextPart()
			if err == io.EOF {
				break
			}
			if err != nil {
				t.Fatalf("GOVC-STANDIN-FAIL the sent document does not parse (form %q, %d files): %v", form, len(files), err)
			}
			body, err := io.ReadAll(part)
			if err != nil {
				t.Fatalf("GOVC-STANDIN-FAIL reading part %q: %v", part.FormName(), err)
			}
			if part.FileName() == "" && part.Header.Get("Content-Type") == "" {
				gotForm[part.FormName()] = append(gotForm[part.FormName()], string(body))
			} else {
				_, dp, _ := mime.ParseMediaType(part.Header.Get("Content-Disposition"))
				gotFiles = append(gotFiles, fileOut{part.FormName(), dp["filename"], part.Header.Get("Content-Type"), body})
			}
		}
		_ = hr.Body.Close()
		checks++
		if len(gotForm) != len(form) {
			t.Fatalf("GOVC-STANDIN-FAIL form fields sent %q, want %q", gotForm, form)
		}
		for f, vs := range form {
			// line ends inside a value are normalised by the multipart reader: compare modulo \r
			a := strings.ReplaceAll(strings.Join(gotForm[f], "\x00"), "\r", "")
			b := strings.ReplaceAll(strings.Join(vs, "\x00"), "\r", "")
			if a != b {
				t.Fatalf("GOVC-STANDIN-FAIL form field %q sent as %q, want %q (each value exactly once, in order)", f, gotForm[f], vs)
			}
		}
		if len(gotFiles) != len(files) {
			t.Fatalf("GOVC-STANDIN-FAIL %d file parts sent, want %d (every file exactly once)", len(gotFiles), len(files))
		}
		key := func(field, name string, content []byte) string { return field + "\x00" + name + "\x00" + string(content) }
		var wantKeys, gotKeys []string
		for _, fi := range files {
			base := fi.name[strings.LastIndex(fi.name, "/")+1:]
			wantKeys = append(wantKeys, key(fi.field, base, fi.content))
		}
		for _, fo := range gotFiles {
			gotKeys = append(gotKeys, key(fo.field, fo.name, fo.content))
		}
		sort.Strings(wantKeys)
		sort.Strings(gotKeys)
		for k := range wantKeys {
			if wantKeys[k] != gotKeys[k] {
				t.Fatalf("GOVC-STANDIN-FAIL file parts differ from the files handed over (field name, base file name, full content): sent %d parts; first difference at sorted position %d: got field/name %q, want %q", len(gotFiles), k, strings.SplitN(gotKeys[k], "\x00", 3)[:2], strings.SplitN(wantKeys[k], "\x00", 3)[:2])
			}
		}
		for _, fi := range files {
			if fi.closed != 1 {
				t.Fatalf("GOVC-STANDIN-FAIL file %q was closed %d times after a complete upload, want once", fi.name, fi.closed)
			}
			if fi.ct != "" {
				found := false
				for _, fo := range gotFiles {
					if fo.field == fi.field && bytes.Equal(fo.content, fi.content) && fo.ct == fi.ct {
						found = true
					}
				}
				if !found {
					t.Fatalf("GOVC-STANDIN-FAIL file %q declares Content-Type %q, which no part carrying its content has", fi.name, fi.ct)
				}
			} else {
				head := fi.content
				if len(head) > 512 {
					head = head[:512]
				}
				want := http.DetectContentType(head)
				found := false
				for _, fo := range gotFiles {
					if fo.field == fi.field && bytes.Equal(fo.content, fi.content) && fo.ct == want {
						found = true
					}
				}
				if !found {
					t.Fatalf("GOVC-STANDIN-FAIL file %q (%d bytes, no declared type): no part carrying its content is labelled with the sniffed type %q", fi.name, len(fi.content), want)
				}
			}
		}
	}
	fmt.Printf("GOVC-STANDIN name=multipart rounds=%d documents=%d\n", rounds, checks)
}
