package middleware_test

// Bounded stand-in (not a proof): the contracts of C01 state, function by function, which lookup receives which path
// and what each outcome leads to; that a request reaches exactly the designated operation with the decoded parameter
// texts, and that a wrong method is answered 405 with the exact Allow set, joins those contracts with the trie router's
// construction (not proved) and with net/http's URL handling. It is checked here end to end on API descriptions and
// requests BUILT from their parts: every template of a generated route table is instantiated with known values, so the
// operation that must run and the values it must receive are known by construction. Injected with `go test -overlay`
// by /verif's check of C01.

import (
	"encoding/json"
	"fmt"
	"math/rand"
	"net/http"
	"net/http/httptest"
	"net/url"
	"os"
	"sort"
	"strconv"
	"strings"
	"testing"

	"github.com/go-openapi/loads"
	"github.com/go-openapi/runtime"
	"github.com/go-openapi/runtime/middleware"
	"github.com/go-openapi/runtime/middleware/untyped"
)

func TestGovcStandInDispatch(t *testing.T) {
	seed, _ := strconv.ParseInt(os.Getenv("VERIF_SEED"), 10, 64)
	apis := 25
	if os.Getenv("VERIF_TIER") == "thorough" {
		apis = 600
	}
	r := rand.New(rand.NewSource(seed + 6))
	lits := []string{"pets", "users", "v1", "a.b", "x-y", "items"}
	values := []string{"a", "42", "a b", "é", "a/b", "100%", "a+b", "x;y=z", "q=1&r", ":c", "*", "#frag", "a?b", "~t", "A"}
	methods := []string{"GET", "POST", "PUT", "DELETE", "PATCH"}
	bases := []string{"/", "/api", "/api/"}
	requests := 0
	for i := 0; i < apis; i++ {
		base := bases[r.Intn(len(bases))]
		// route table: 1..6 templates, each under 1..3 methods
		type route struct {
			tmpl    string
			segs    []string
			methods []string
		}
		var routes []route
		seen := map[string]bool{}
		shape := func(tmpl string) string { // two templates that differ only in parameter names are the same route
			parts := strings.Split(tmpl, "/")
			for k, p := range parts {
				if strings.HasPrefix(p, "{") {
					parts[k] = "{}"
				}
			}
			return strings.Join(parts, "/")
		}
		for len(routes) < 1+r.Intn(6) {
			n := 1 + r.Intn(4)
			var segs []string
			for j := 0; j < n; j++ {
				if r.Intn(3) == 0 {
					segs = append(segs, "{p"+strconv.Itoa(j)+"}")
				} else {
					segs = append(segs, lits[r.Intn(len(lits))])
				}
			}
			tmpl := "/" + strings.Join(segs, "/")
			if seen[shape(tmpl)] {
				continue
			}
			seen[shape(tmpl)] = true
			ms := append([]string{}, methods...)
			r.Shuffle(len(ms), func(a, b int) { ms[a], ms[b] = ms[b], ms[a] })
			routes = append(routes, route{tmpl, segs, ms[:1+r.Intn(3)]})
		}
		// description document
		paths := map[string]interface{}{}
		for ri, rt := range routes {
			ops := map[string]interface{}{}
			for _, m := range rt.methods {
				var params []interface{}
				for _, s := range rt.segs {
					if strings.HasPrefix(s, "{") {
						params = append(params, map[string]interface{}{"name": s[1 : len(s)-1], "in": "path", "required": true, "type": "string"})
					}
				}
				op := map[string]interface{}{"operationId": fmt.Sprintf("op%d%s", ri, m), "responses": map[string]interface{}{"200": map[string]interface{}{"description": "ok"}}}
				if len(params) > 0 {
					op["parameters"] = params
				}
				ops[strings.ToLower(m)] = op
			}
			paths[rt.tmpl] = ops
		}
		doc := map[string]interface{}{"swagger": "2.0", "info": map[string]interface{}{"title": "t", "version": "1"}, "basePath": base,
			"consumes": []string{"application/json"}, "produces": []string{"application/json"}, "paths": paths}
		raw, _ := json.Marshal(doc)
		spec, err := loads.Analyzed(json.RawMessage(raw), "")
		if err != nil {
			t.Fatalf("GOVC-STANDIN-FAIL the generated description does not load: %v\n%s", err, raw)
		}
		api := untyped.NewAPI(spec)
		var ran string
		var got map[string]interface{}
		for ri, rt := range routes {
			for _, m := range rt.methods {
				id := fmt.Sprintf("op%d%s", ri, m)
				api.RegisterOperation(m, rt.tmpl, runtime.OperationHandlerFunc(func(data interface{}) (interface{}, error) {
					ran = id
					got, _ = data.(map[string]interface{})
					return map[string]string{"ok": id}, nil
				}))
			}
		}
		handler := middleware.Serve(spec, api)
		// which routes does a path fit, by construction: segment-wise, literal preferred to parameter at the first difference
		fits := func(rt route, segs []string) bool {
			if len(rt.segs) != len(segs) {
				return false
			}
			for k, s := range rt.segs {
				if !strings.HasPrefix(s, "{") && s != segs[k] {
					return false
				}
			}
			return true
		}
		prefers := func(a, b route) bool {
			for k := range a.segs {
				ap, bp := strings.HasPrefix(a.segs[k], "{"), strings.HasPrefix(b.segs[k], "{")
				if ap != bp {
					return !ap
				}
			}
			return false
		}
		prefix := strings.TrimSuffix(base, "/")
		for ri, rt := range routes {
			// instantiate the template
			var rawSegs, escSegs []string
			for _, s := range rt.segs {
				if strings.HasPrefix(s, "{") {
					v := values[r.Intn(len(values))]
					rawSegs = append(rawSegs, v)
					escSegs = append(escSegs, url.PathEscape(v))
				} else {
					rawSegs = append(rawSegs, s)
					escSegs = append(escSegs, s)
				}
			}
			target := prefix + "/" + strings.Join(escSegs, "/")
			// the route that must answer: among the routes the decoded-segment path fits, the preferred one.
			// (a value equal to a literal of a sibling route makes that sibling fit too: that is intended routing)
			best := -1
			for k, other := range routes {
				if fits(other, rawSegsOrEsc(rawSegs, escSegs)) && (best < 0 || prefers(other, routes[best])) {
					best = k
				}
			}
			_ = ri
			if best < 0 {
				continue
			}
			winner := routes[best]
			allowed := map[string]bool{}
			for _, other := range routes {
				if fits(other, rawSegsOrEsc(rawSegs, escSegs)) {
					for _, m := range other.methods {
						allowed[m] = true
					}
				}
			}
			for _, m := range methods {
				ran, got = "", nil
				rec := httptest.NewRecorder()
				req := httptest.NewRequest(m, "http://example.org"+target, nil)
				req.Header.Set("Accept", "application/json")
				func() {
					defer func() {
						if p := recover(); p != nil {
							t.Fatalf("GOVC-STANDIN-FAIL %s %s on routes %v (base %q): the handler chain panicked: %v", m, target, routes, base, p)
						}
					}()
					handler.ServeHTTP(rec, req)
				}()
				requests++
				has := false
				for _, wm := range winner.methods {
					if wm == m {
						has = true
					}
				}
				switch {
				case has:
					want := fmt.Sprintf("op%d%s", best, m)
					if rec.Code != http.StatusOK || ran != want {
						t.Fatalf("GOVC-STANDIN-FAIL %s %s on routes %v (base %q): status %d, operation %q ran, want %q", m, target, routes, base, rec.Code, ran, want)
					}
					for k, s := range winner.segs {
						if strings.HasPrefix(s, "{") {
							name := s[1 : len(s)-1]
							if got[name] != rawSegs[k] {
								t.Fatalf("GOVC-STANDIN-FAIL %s %s on routes %v (base %q): parameter %s arrived as %#v, want %q", m, target, routes, base, name, got[name], rawSegs[k])
							}
						}
					}
				case allowed[m]:
					// another fitting template carries this method: the router tries the preferred template only per method table;
					// which operation answers is decided per method, so look the expectation up per method
					bestM := -1
					for k, other := range routes {
						if !fits(other, rawSegsOrEsc(rawSegs, escSegs)) {
							continue
						}
						hasM := false
						for _, om := range other.methods {
							if om == m {
								hasM = true
							}
						}
						if hasM && (bestM < 0 || prefers(other, routes[bestM])) {
							bestM = k
						}
					}
					want := fmt.Sprintf("op%d%s", bestM, m)
					if rec.Code != http.StatusOK || ran != want {
						t.Fatalf("GOVC-STANDIN-FAIL %s %s on routes %v (base %q): status %d, operation %q ran, want %q (the preferred template under this method)", m, target, routes, base, rec.Code, ran, want)
					}
				default:
					if ran != "" {
						t.Fatalf("GOVC-STANDIN-FAIL %s %s on routes %v (base %q): operation %q ran although no fitting template has this method", m, target, routes, base, ran)
					}
					if rec.Code != http.StatusMethodNotAllowed {
						t.Fatalf("GOVC-STANDIN-FAIL %s %s on routes %v (base %q): status %d, want 405", m, target, routes, base, rec.Code)
					}
					var wantAllow []string
					for am := range allowed {
						wantAllow = append(wantAllow, am)
					}
					sort.Strings(wantAllow)
					gotAllow := strings.Split(strings.ReplaceAll(rec.Header().Get("Allow"), " ", ""), ",")
					sort.Strings(gotAllow)
					if strings.Join(gotAllow, ",") != strings.Join(wantAllow, ",") {
						t.Fatalf("GOVC-STANDIN-FAIL %s %s on routes %v (base %q): Allow %q, want exactly %v", m, target, routes, base, rec.Header().Get("Allow"), wantAllow)
					}
				}
			}
		}
		// a path that fits no template: 404, nothing runs
		ran = ""
		rec := httptest.NewRecorder()
		handler.ServeHTTP(rec, httptest.NewRequest("GET", "http://example.org"+prefix+"/no/such/route/at/all", nil))
		requests++
		if rec.Code != http.StatusNotFound || ran != "" {
			t.Fatalf("GOVC-STANDIN-FAIL GET of an unknown path on routes %v: status %d, operation %q ran, want 404 and nothing", routes, rec.Code, ran)
		}
	}
	fmt.Printf("GOVC-STANDIN name=dispatch apis=%d requests=%d\n", apis, requests)
}

// the routing decision is made on the percent-encoded path: a literal segment is compared with the encoded text
func rawSegsOrEsc(rawSegs, escSegs []string) []string { return escSegs }
