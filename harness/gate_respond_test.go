package middleware_test

// Bounded stand-in (not a proof): the contracts of C06 and C08 state, stage by stage, which admission test and which
// producer lookup happen with which arguments; that a request with a body is decoded by the consumer of its media type
// exactly when the operation's consumes list admits it (415 / 400 otherwise, nothing runs), and that the answer carries
// the declared status, the negotiated type and that type's encoding, joins those contracts with mime parsing (library)
// and with the route tables (construction not proved). It is checked here end to end on operations and requests BUILT
// from their parts: which consumer must run and what must come back is known by construction (marker codecs that
// record their use). Injected with `go test -overlay` by /verif's checks of C06 and C08.

import (
	"encoding/json"
	"fmt"
	"io"
	"net/http"
	"net/http/httptest"
	"strings"
	"testing"

	"github.com/go-openapi/loads"
	"github.com/go-openapi/runtime"
	"github.com/go-openapi/runtime/middleware"
	"github.com/go-openapi/runtime/middleware/untyped"
)

func TestGovcStandInGateRespond(t *testing.T) {
	types := []string{"application/json", "application/x-yaml", "text/plain", "application/vnd.x+json"}
	consumesSets := [][]string{{"application/json"}, {"text/plain"}, {"application/x-yaml", "text/plain"}, {"application/*"}, {"*/*"}, {}}
	producesSets := [][]string{{"application/json"}, {"text/plain", "application/json"}, {"application/x-yaml"}}
	statuses := []int{200, 201, 202, 204}
	checks := 0
	for ci, consumes := range consumesSets {
		for pi, produces := range producesSets {
			status := statuses[(ci+pi)%len(statuses)]
			op := map[string]interface{}{
				"operationId": "op", "consumes": consumes, "produces": produces,
				"parameters": []interface{}{map[string]interface{}{"name": "body", "in": "body", "schema": map[string]interface{}{"type": "object"}}},
				"responses":  map[string]interface{}{fmt.Sprint(status): map[string]interface{}{"description": "ok"}},
			}
			doc := map[string]interface{}{"swagger": "2.0", "info": map[string]interface{}{"title": "t", "version": "1"}, "basePath": "/",
				"consumes": []string{"application/json"}, "produces": []string{"application/json"},
				"paths": map[string]interface{}{"/things": map[string]interface{}{"post": op, "head": map[string]interface{}{"operationId": "hd", "produces": produces, "responses": map[string]interface{}{"200": map[string]interface{}{"description": "ok"}}}}}}
			raw, _ := json.Marshal(doc)
			spec, err := loads.Analyzed(json.RawMessage(raw), "")
			if err != nil {
				t.Fatalf("GOVC-STANDIN-FAIL the generated description does not load: %v", err)
			}
			api := untyped.NewAPI(spec)
			var consumedBy, producedBy string
			for _, mt := range types {
				mt := mt
				api.RegisterConsumer(mt, runtime.ConsumerFunc(func(rd io.Reader, v interface{}) error {
					consumedBy = mt
					_, _ = io.ReadAll(rd)
					if p, ok := v.(*map[string]interface{}); ok {
						*p = map[string]interface{}{"via": mt}
					}
					return nil
				}))
				api.RegisterProducer(mt, runtime.ProducerFunc(func(w io.Writer, v interface{}) error {
					producedBy = mt
					_, err := io.WriteString(w, "<"+mt+">")
					return err
				}))
			}
			ran := false
			h := runtime.OperationHandlerFunc(func(interface{}) (interface{}, error) { ran = true; return map[string]string{"k": "v"}, nil })
			api.RegisterOperation("post", "/things", h)
			api.RegisterOperation("head", "/things", h)
			handler := middleware.Serve(spec, api)

			admitted := func(mt string) bool { // by construction: the operation's list plus the API default (application/json)
				list := append(append([]string{}, consumes...), "application/json")
				for _, c := range list {
					if c == "*/*" || strings.EqualFold(c, mt) || (strings.HasSuffix(c, "/*") && strings.EqualFold(strings.TrimSuffix(c, "*"), mt[:strings.Index(mt, "/")+1])) {
						return true
					}
				}
				return false
			}
			for _, mt := range types {
				for _, variant := range []string{mt, strings.ToUpper(mt), mt + "; charset=utf-8", mt + ";x=\"y\""} {
					consumedBy, producedBy, ran = "", "", false
					rec := httptest.NewRecorder()
					req := httptest.NewRequest(http.MethodPost, "http://example.org/things", strings.NewReader(`{"a":1}`))
					req.Header.Set("Content-Type", variant)
					req.Header.Set("Accept", "*/*")
					handler.ServeHTTP(rec, req)
					checks++
					desc := fmt.Sprintf("POST with Content-Type %q to an operation consuming %v (+ application/json) producing %v", variant, consumes, produces)
					if !admitted(mt) {
						if rec.Code != http.StatusUnsupportedMediaType || ran || consumedBy != "" {
							t.Fatalf("GOVC-STANDIN-FAIL %s: status %d, handler ran %v, consumer %q ran; want 415 and nothing", desc, rec.Code, ran, consumedBy)
						}
						continue
					}
					if !ran || consumedBy != mt {
						t.Fatalf("GOVC-STANDIN-FAIL %s: status %d, handler ran %v, consumer %q ran; want the %s consumer and the handler", desc, rec.Code, ran, consumedBy, mt)
					}
					// response: declared status, first acceptable offer (Accept */*): produces minus default, then default
					if rec.Code != status {
						t.Fatalf("GOVC-STANDIN-FAIL %s: status %d, want the declared %d", desc, rec.Code, status)
					}
					if status == 204 {
						if rec.Body.Len() != 0 || producedBy != "" {
							t.Fatalf("GOVC-STANDIN-FAIL %s: a 204 answer carries a body %q (producer %q)", desc, rec.Body.String(), producedBy)
						}
						continue
					}
					ct := rec.Header().Get("Content-Type")
					if producedBy == "" || rec.Body.String() != "<"+producedBy+">" || !strings.EqualFold(ct, producedBy) {
						t.Fatalf("GOVC-STANDIN-FAIL %s: Content-Type %q, body %q written by the %q producer: header, producer and body do not agree", desc, ct, rec.Body.String(), producedBy)
					}
					offered := false
					for _, p := range append(append([]string{}, produces...), "application/json") {
						if p == producedBy {
							offered = true
						}
					}
					if !offered {
						t.Fatalf("GOVC-STANDIN-FAIL %s: answered as %q, which is not among the offers %v + application/json", desc, producedBy, produces)
					}
				}
			}
			// unparsable Content-Type: 400, nothing runs
			consumedBy, ran = "", false
			rec := httptest.NewRecorder()
			req := httptest.NewRequest(http.MethodPost, "http://example.org/things", strings.NewReader(`{"a":1}`))
			req.Header.Set("Content-Type", "application/json; charset")
			handler.ServeHTTP(rec, req)
			checks++
			if rec.Code != http.StatusBadRequest || ran || consumedBy != "" {
				t.Fatalf("GOVC-STANDIN-FAIL POST with an unparsable Content-Type: status %d, handler ran %v, consumer %q; want 400 and nothing", rec.Code, ran, consumedBy)
			}
			// no body: the gate does not apply
			ran = false
			rec = httptest.NewRecorder()
			req = httptest.NewRequest(http.MethodPost, "http://example.org/things", nil)
			req.Header.Set("Content-Type", "image/png")
			handler.ServeHTTP(rec, req)
			checks++
			if !ran {
				t.Fatalf("GOVC-STANDIN-FAIL POST without a body and Content-Type image/png to an operation consuming %v: status %d, the handler did not run (the check applies to requests with a body only)", consumes, rec.Code)
			}
			// Accept selects among the offers; an Accept none of them satisfies gives 406 and nothing runs
			for _, p := range produces {
				ran, producedBy = false, ""
				rec = httptest.NewRecorder()
				req = httptest.NewRequest(http.MethodPost, "http://example.org/things", strings.NewReader(`{"a":1}`))
				req.Header.Set("Content-Type", "application/json")
				req.Header.Set("Accept", p+";q=0.9, image/png;q=0.1")
				handler.ServeHTTP(rec, req)
				checks++
				if !ran || (status != 204 && (producedBy != p || !strings.EqualFold(rec.Header().Get("Content-Type"), p))) {
					t.Fatalf("GOVC-STANDIN-FAIL POST with Accept %q to an operation producing %v: status %d, ran %v, producer %q, Content-Type %q; want %s", p+";q=0.9, image/png;q=0.1", produces, rec.Code, ran, producedBy, rec.Header().Get("Content-Type"), p)
				}
			}
			ran = false
			rec = httptest.NewRecorder()
			req = httptest.NewRequest(http.MethodPost, "http://example.org/things", strings.NewReader(`{"a":1}`))
			req.Header.Set("Content-Type", "application/json")
			req.Header.Set("Accept", "image/png")
			handler.ServeHTTP(rec, req)
			checks++
			if rec.Code != http.StatusNotAcceptable || ran {
				t.Fatalf("GOVC-STANDIN-FAIL POST with Accept image/png to an operation producing %v: status %d, handler ran %v; want 406 and nothing", produces, rec.Code, ran)
			}
			// HEAD: status, no body
			ran, producedBy = false, ""
			rec = httptest.NewRecorder()
			handler.ServeHTTP(rec, httptest.NewRequest(http.MethodHead, "http://example.org/things", nil))
			checks++
			if !ran || rec.Code != http.StatusOK || rec.Body.Len() != 0 || producedBy != "" {
				t.Fatalf("GOVC-STANDIN-FAIL HEAD on an operation producing %v: status %d, ran %v, body %q (producer %q); want 200 and no body", produces, rec.Code, ran, rec.Body.String(), producedBy)
			}
		}
	}
	fmt.Printf("GOVC-STANDIN name=gate-respond checks=%d\n", checks)
}
