package untyped

// Bounded stand-in (not a proof): the contract of (*API).verify proves that validation fails exactly when the set of
// registrations differs from the set of expectations; WHICH names the error reports was tried as element-wise
// invariants and made the solvers time out. It is checked here on API descriptions and registration sets BUILT from
// their parts: the expected missing and superfluous names are known by construction. Injected with `go test -overlay`
// by /verif's check of C19.

import (
	"encoding/json"
	"errors"
	"fmt"
	"io"
	"math/rand"
	"net/http"
	"os"
	"sort"
	"strconv"
	"strings"
	"testing"

	swaggererrors "github.com/go-openapi/errors"
	"github.com/go-openapi/loads"
	"github.com/go-openapi/runtime"
)

func TestGovcStandInValidate(t *testing.T) {
	seed, _ := strconv.ParseInt(os.Getenv("VERIF_SEED"), 10, 64)
	rounds := 60
	if os.Getenv("VERIF_TIER") == "thorough" {
		rounds = 2500
	}
	r := rand.New(rand.NewSource(seed + 8))
	mediaTypes := []string{"application/json", "application/xml", "text/plain", "application/x-yaml", "text/csv"}
	schemes := []string{"basic", "apikey", "oauth"}
	paths := []string{"/a", "/a/{id}", "/b", "/b/{id}/c"}
	methods := []string{"get", "post", "put", "delete"}
	cons := runtime.ConsumerFunc(func(io.Reader, interface{}) error { return nil })
	prod := runtime.ProducerFunc(func(io.Writer, interface{}) error { return nil })
	auth := runtime.AuthenticatorFunc(func(interface{}) (bool, interface{}, error) { return true, nil, nil })
	hnd := runtime.OperationHandlerFunc(func(interface{}) (interface{}, error) { return nil, nil })
	pick := func(all []string) []string {
		var out []string
		for _, x := range all {
			if r.Intn(2) == 0 {
				out = append(out, x)
			}
		}
		if len(out) == 0 {
			out = append(out, all[r.Intn(len(all))])
		}
		return out
	}
	checks := 0
	for i := 0; i < rounds; i++ {
		consumes, produces := pick(mediaTypes), pick(mediaTypes)
		usedSchemes := pick(schemes)
		type opKey struct{ m, p string }
		var ops []opKey
		pathItems := map[string]interface{}{}
		for _, p := range pick(paths) {
			item := map[string]interface{}{}
			for _, m := range pick(methods) {
				ops = append(ops, opKey{m, p})
				op := map[string]interface{}{"operationId": m + strings.ReplaceAll(p, "/", "_"), "responses": map[string]interface{}{"200": map[string]interface{}{"description": "ok"}},
					"security": []interface{}{map[string]interface{}{usedSchemes[r.Intn(len(usedSchemes))]: []string{}}}}
				if strings.Contains(p, "{id}") {
					op["parameters"] = []interface{}{map[string]interface{}{"name": "id", "in": "path", "required": true, "type": "string"}}
				}
				item[m] = op
			}
			pathItems[p] = item
		}
		// make every declared scheme used by at least one operation (unused definitions are a separate failing category)
		defs := map[string]interface{}{}
		k := 0
		for _, p := range pathItems {
			for _, o := range p.(map[string]interface{}) {
				if k < len(usedSchemes) {
					o.(map[string]interface{})["security"] = []interface{}{map[string]interface{}{usedSchemes[k]: []string{}}}
					k++
				}
			}
		}
		usedSchemes = usedSchemes[:min2(k, len(usedSchemes))]
		for _, s := range usedSchemes {
			defs[s] = map[string]interface{}{"type": "apiKey", "name": "X-" + s, "in": "header"}
		}
		doc := map[string]interface{}{"swagger": "2.0", "info": map[string]interface{}{"title": "t", "version": "1"}, "basePath": "/",
			"consumes": consumes, "produces": produces, "securityDefinitions": defs, "paths": pathItems}
		raw, _ := json.Marshal(doc)
		spec, err := loads.Analyzed(json.RawMessage(raw), "")
		if err != nil {
			t.Fatalf("GOVC-STANDIN-FAIL the generated description does not load: %v", err)
		}
		build := func(skip, extra map[string]string) *API {
			api := NewAPI(spec).WithoutJSONDefaults()
			for _, mt := range consumes {
				if skip["consumes"] != mt {
					api.RegisterConsumer(variant(r, mt), cons)
				}
			}
			for _, mt := range produces {
				if skip["produces"] != mt {
					api.RegisterProducer(variant(r, mt), prod)
				}
			}
			for _, s := range usedSchemes {
				if skip["auth scheme"] != s {
					api.RegisterAuth(s, auth)
				}
			}
			for _, o := range ops {
				if skip["operation"] != strings.ToUpper(o.m)+" "+o.p {
					m := o.m
					if r.Intn(2) == 0 {
						m = strings.ToUpper(m)
					}
					api.RegisterOperation(m, o.p, hnd)
				}
			}
			if v := extra["consumes"]; v != "" {
				api.RegisterConsumer(v, cons)
			}
			if v := extra["produces"]; v != "" {
				api.RegisterProducer(v, prod)
			}
			if v := extra["auth scheme"]; v != "" {
				api.RegisterAuth(v, auth)
			}
			if v := extra["operation"]; v != "" {
				api.RegisterOperation("PATCH", v, hnd)
			}
			return api
		}
		// exact registrations: valid
		checks++
		if err := build(nil, nil).Validate(); err != nil {
			t.Fatalf("GOVC-STANDIN-FAIL exact registrations for consumes %v produces %v schemes %v operations %v are refused: %v", consumes, produces, usedSchemes, ops, err)
		}
		// one omission or one addition per category: refused, naming exactly that item in that section
		cats := map[string][]string{"consumes": consumes, "produces": produces, "auth scheme": usedSchemes}
		for _, o := range ops {
			cats["operation"] = append(cats["operation"], strings.ToUpper(o.m)+" "+o.p)
		}
		extras := map[string]string{"consumes": "image/png", "produces": "image/png", "auth scheme": "ghost", "operation": "/zzz"}
		for cat, items := range cats {
			if len(items) == 0 {
				continue
			}
			missing := items[r.Intn(len(items))]
			checks++
			expect(t, build(map[string]string{cat: missing}, nil).Validate(), cat, []string{missing}, nil, fmt.Sprintf("%s %q not registered", cat, missing))
			extra := extras[cat]
			wantExtra := extra
			if cat == "operation" {
				wantExtra = "PATCH " + extra
			}
			checks++
			expect(t, build(nil, map[string]string{cat: extra}).Validate(), cat, nil, []string{wantExtra}, fmt.Sprintf("superfluous %s %q registered", cat, extra))
		}
	}
	fmt.Printf("GOVC-STANDIN name=validate rounds=%d checks=%d\n", rounds, checks)
	_ = http.MethodGet
}

func min2(a, b int) int {
	if a < b {
		return a
	}
	return b
}

// variant: media types are registered in another letter case now and then (registration normalises them)
func variant(r *rand.Rand, mt string) string {
	if r.Intn(3) == 0 {
		return strings.ToUpper(mt)
	}
	return mt
}

func expect(t *testing.T, err error, section string, missingReg, missingSpec []string, what string) {
	t.Helper()
	if err == nil {
		t.Fatalf("GOVC-STANDIN-FAIL %s: validation passes", what)
	}
	var vf *swaggererrors.APIVerificationFailed
	if !errors.As(err, &vf) {
		t.Fatalf("GOVC-STANDIN-FAIL %s: error %T (%v), want an APIVerificationFailed", what, err, err)
	}
	sort.Strings(vf.MissingRegistration)
	sort.Strings(vf.MissingSpecification)
	if vf.Section != section || strings.Join(vf.MissingRegistration, "|") != strings.Join(missingReg, "|") || strings.Join(vf.MissingSpecification, "|") != strings.Join(missingSpec, "|") {
		t.Fatalf("GOVC-STANDIN-FAIL %s: reported section %q, missing registrations %q, missing from the description %q; want section %q, %q, %q", what, vf.Section, vf.MissingRegistration, vf.MissingSpecification, section, missingReg, missingSpec)
	}
}
