package middleware_test

// Bounded stand-in (not a proof): there is no thread model in the contracts; C09's claim that per-request values are
// private under concurrency is proved only as frames (which memory each stage may write) and as "the handler closure
// stores into no captured variable". Here requests BUILT with distinct values are served concurrently through one
// handler: every answer must carry the values of its own request (and an invalid request must not make a concurrent
// valid one fail, nor the reverse). Injected with `go test -overlay` by /verif's check of C09.

import (
	"encoding/json"
	"fmt"
	"net/http"
	"net/http/httptest"
	"os"
	"strconv"
	"sync"
	"testing"

	"github.com/go-openapi/loads"
	"github.com/go-openapi/runtime"
	"github.com/go-openapi/runtime/middleware"
	"github.com/go-openapi/runtime/middleware/untyped"
)

func TestGovcStandInIsolation(t *testing.T) {
	workers, perWorker := 32, 400
	if os.Getenv("VERIF_TIER") == "thorough" {
		workers, perWorker = 64, 1500
	}
	doc := `{"swagger":"2.0","info":{"title":"t","version":"1"},"basePath":"/","consumes":["application/json"],"produces":["application/json"],
	 "paths":{"/items/{id}":{"get":{"operationId":"get","parameters":[
	   {"name":"id","in":"path","required":true,"type":"integer","format":"int64"},
	   {"name":"tag","in":"query","required":true,"type":"string"},
	   {"name":"X-Trace","in":"header","type":"string"}],
	  "responses":{"200":{"description":"ok"}}}}}}`
	spec, err := loads.Analyzed(json.RawMessage(doc), "")
	if err != nil {
		t.Fatal(err)
	}
	api := untyped.NewAPI(spec)
	api.RegisterOperation("get", "/items/{id}", runtime.OperationHandlerFunc(func(data interface{}) (interface{}, error) {
		m := data.(map[string]interface{})
		return map[string]interface{}{"id": m["id"], "tag": m["tag"], "trace": m["X-Trace"]}, nil
	}))
	handler := middleware.Serve(spec, api)
	var wg sync.WaitGroup
	errs := make(chan string, workers)
	for w := 0; w < workers; w++ {
		wg.Add(1)
		go func(w int) {
			defer wg.Done()
			for k := 0; k < perWorker; k++ {
				id := int64(w)*1000000 + int64(k)
				tag := fmt.Sprintf("w%d-k%d", w, k)
				invalid := k%7 == 3 // every so often a request without the required query parameter
				target := "http://example.org/items/" + strconv.FormatInt(id, 10)
				if !invalid {
					target += "?tag=" + tag
				}
				req := httptest.NewRequest(http.MethodGet, target, nil)
				req.Header.Set("X-Trace", tag)
				rec := httptest.NewRecorder()
				handler.ServeHTTP(rec, req)
				if invalid {
					if rec.Code != http.StatusUnprocessableEntity {
						errs <- fmt.Sprintf("request %s without its required parameter was answered %d: %s", target, rec.Code, rec.Body.String())
						return
					}
					continue
				}
				var got struct {
					ID    int64  `json:"id"`
					Tag   string `json:"tag"`
					Trace string `json:"trace"`
				}
				if rec.Code != http.StatusOK || json.Unmarshal(rec.Body.Bytes(), &got) != nil || got.ID != id || got.Tag != tag || got.Trace != tag {
					errs <- fmt.Sprintf("request %s (trace %s) was answered %d %s: the handler saw another request's values", target, tag, rec.Code, rec.Body.String())
					return
				}
			}
		}(w)
	}
	wg.Wait()
	close(errs)
	for e := range errs {
		t.Fatalf("GOVC-STANDIN-FAIL %s", e)
	}
	fmt.Printf("GOVC-STANDIN name=isolation workers=%d requests=%d\n", workers, workers*perWorker)
}
