package client

// Bounded stand-in (not a proof): the contracts of Submit, buildHTTP and the multipart writer goroutine state the
// enabling conditions (who closes what on which return, which consumer is selected from which header); that a call
// actually terminates, that every file handed over is closed and no goroutine is left behind, under every point of
// failure, involves schedules and blocking that per-function contracts do not decide. It is checked here on calls
// BUILT with a failure injected at a known point, so what must have been released is known by construction.
// Injected with `go test -overlay` by /verif's checks of C12 and C13.

import (
	"bytes"
	"errors"
	"fmt"
	"io"
	"net/http"
	goruntime "runtime"
	"strings"
	"testing"
	"time"

	"github.com/go-openapi/runtime"
	"github.com/go-openapi/strfmt"
)

type govcFile struct {
	io.Reader
	name   string
	closed int
}

func (f *govcFile) Close() error { f.closed++; return nil }
func (f *govcFile) Name() string { return f.name }

type govcFailAt struct {
	data []byte
	at   int
}

func (f *govcFailAt) Read(p []byte) (int, error) {
	if f.at <= 0 {
		return 0, errors.New("disk error")
	}
	n := copy(p, f.data)
	if n > f.at {
		n = f.at
	}
	f.at -= n
	f.data = f.data[n:]
	if len(f.data) == 0 {
		return n, io.EOF
	}
	return n, nil
}

type govcTransport func(*http.Request) (*http.Response, error)

func (f govcTransport) RoundTrip(r *http.Request) (*http.Response, error) { return f(r) }

type govcRespBody struct {
	io.Reader
	closed int
}

func (b *govcRespBody) Close() error { b.closed++; return nil }

func TestGovcStandInSubmit(t *testing.T) {
	before := goruntime.NumGoroutine()
	checks := 0
	payload := bytes.Repeat([]byte("0123456789abcdef"), 700) // larger than a pipe hand-over, smaller than memory matters
	type scenario struct {
		name       string
		files      int
		failFile   int // index of the file whose reader fails (-1: none)
		authErr    bool
		transport  string // ok | fail-early | fail-midway | no-read
		respCT     string
		wantErr    bool
	}
	var scenarios []scenario
	for _, files := range []int{0, 1, 3} {
		for _, tr := range []string{"ok", "fail-early", "fail-midway", "no-read"} {
			scenarios = append(scenarios, scenario{fmt.Sprintf("%d files, transport %s", files, tr), files, -1, false, tr, "application/json", tr != "ok" && tr != "no-read"})
		}
		if files > 0 {
			scenarios = append(scenarios, scenario{fmt.Sprintf("%d files, reader of file 0 fails", files), files, 0, false, "ok", "application/json", true})
			scenarios = append(scenarios, scenario{fmt.Sprintf("%d files, reader of the last file fails", files), files, files - 1, false, "ok", "application/json", true})
		}
		scenarios = append(scenarios, scenario{fmt.Sprintf("%d files, authentication fails", files), files, -1, true, "ok", "application/json", true})
	}
	for _, ct := range []string{"application/json", "application/json; charset=utf-8", "APPLICATION/JSON", "text/plain", "", "application/unknown", "garbage;;"} {
		scenarios = append(scenarios, scenario{"response Content-Type " + ct, 0, -1, false, "ok", ct, ct == "garbage;;"})
	}
	for _, sc := range scenarios {
		var files []*govcFile
		for k := 0; k < sc.files; k++ {
			var rd io.Reader = bytes.NewReader(payload)
			if k == sc.failFile {
				rd = &govcFailAt{data: append([]byte{}, payload...), at: 3000}
			}
			files = append(files, &govcFile{Reader: rd, name: fmt.Sprintf("f%d.bin", k)})
		}
		var respBody *govcRespBody
		rt := New("example.org", "/api", []string{"http"})
		rt.Transport = govcTransport(func(r *http.Request) (*http.Response, error) {
			// (http.RoundTripper's contract: the request body is always closed, also on errors)
			switch sc.transport {
			case "fail-early":
				if r.Body != nil {
					_ = r.Body.Close()
				}
				return nil, errors.New("dial failed")
			case "fail-midway":
				if r.Body != nil {
					_, _ = io.CopyN(io.Discard, r.Body, 1000)
					_ = r.Body.Close()
				}
				return nil, errors.New("connection reset")
			case "no-read":
				// a server that answers without reading the upload
			default:
				if r.Body != nil {
					if _, err := io.Copy(io.Discard, r.Body); err != nil {
						_ = r.Body.Close()
						return nil, err // a transport fails the request when the body cannot be read
					}
				}
			}
			if r.Body != nil {
				_ = r.Body.Close() // net/http closes the request body
			}
			respBody = &govcRespBody{Reader: strings.NewReader(`{"ok":true}`)}
			h := http.Header{}
			if sc.respCT != "" {
				h.Set("Content-Type", sc.respCT)
			}
			return &http.Response{StatusCode: 200, Header: h, Body: respBody, Request: r}, nil
		})
		usedConsumer := ""
		rt.Consumers = map[string]runtime.Consumer{}
		for _, mt := range []string{"application/json", "text/plain", "*/*"} {
			mt := mt
			rt.Consumers[mt] = runtime.ConsumerFunc(func(rd io.Reader, v interface{}) error { usedConsumer = mt; _, err := io.ReadAll(rd); return err })
		}
		var auth runtime.ClientAuthInfoWriter
		if sc.authErr {
			auth = runtime.ClientAuthInfoWriterFunc(func(runtime.ClientRequest, strfmt.Registry) error { return errors.New("no token") })
		}
		done := make(chan struct{})
		var result interface{}
		var err error
		go func() {
			defer close(done)
			result, err = rt.Submit(&runtime.ClientOperation{
				ID: "op", Method: "POST", PathPattern: "/upload",
				ProducesMediaTypes: []string{"application/json"}, ConsumesMediaTypes: []string{"multipart/form-data"},
				Schemes: []string{"http"}, AuthInfo: auth,
				Params: runtime.ClientRequestWriterFunc(func(rq runtime.ClientRequest, _ strfmt.Registry) error {
					if len(files) == 0 {
						return rq.SetBodyParam(nil)
					}
					var nf []runtime.NamedReadCloser
					for _, f := range files {
						nf = append(nf, f)
					}
					_ = rq.SetFormParam("note", "x")
					return rq.SetFileParam("file", nf...)
				}),
				Reader: runtime.ClientResponseReaderFunc(func(resp runtime.ClientResponse, c runtime.Consumer) (interface{}, error) {
					var v interface{}
					if err := c.Consume(resp.Body(), &v); err != nil {
						return nil, err
					}
					return "read", nil
				}),
			})
		}()
		select {
		case <-done:
		case <-time.After(20 * time.Second):
			t.Fatalf("GOVC-STANDIN-FAIL %s: Submit did not return within 20 s", sc.name)
		}
		checks++
		if sc.wantErr && err == nil {
			t.Fatalf("GOVC-STANDIN-FAIL %s: Submit returned %v without an error", sc.name, result)
		}
		if !sc.wantErr && err != nil {
			t.Fatalf("GOVC-STANDIN-FAIL %s: Submit failed: %v", sc.name, err)
		}
		// every file handed over has been closed (give the writer goroutine a moment to wind down)
		deadline := time.Now().Add(5 * time.Second)
		for {
			open := 0
			for _, f := range files {
				if f.closed == 0 {
					open++
				}
			}
			if open == 0 || time.Now().After(deadline) {
				if open != 0 {
					t.Fatalf("GOVC-STANDIN-FAIL %s: %d of %d upload files were never closed", sc.name, open, len(files))
				}
				break
			}
			time.Sleep(5 * time.Millisecond)
		}
		if respBody != nil && respBody.closed == 0 {
			t.Fatalf("GOVC-STANDIN-FAIL %s: the response body was not closed", sc.name)
		}
		if err == nil {
			want := map[string]string{"application/json": "application/json", "application/json; charset=utf-8": "application/json", "APPLICATION/JSON": "application/json", "text/plain": "text/plain", "": "application/json", "application/unknown": "*/*"}[sc.respCT]
			if usedConsumer != want {
				t.Fatalf("GOVC-STANDIN-FAIL %s: the reader was handed the %q consumer, want %q", sc.name, usedConsumer, want)
			}
		}
	}
	// an authentication writer that inspects the body (signing schemes do) while the upload source fails: the failure surfaces
	{
		rt := New("example.org", "/api", []string{"http"})
		sent := 0
		rt.Transport = govcTransport(func(r *http.Request) (*http.Response, error) {
			if r.Body != nil {
				n, err := io.Copy(io.Discard, r.Body)
				sent = int(n)
				_ = r.Body.Close()
				if err != nil {
					return nil, err
				}
			}
			return &http.Response{StatusCode: 200, Header: http.Header{"Content-Type": {"application/json"}}, Body: io.NopCloser(strings.NewReader("{}")), Request: r}, nil
		})
		rt.Consumers = map[string]runtime.Consumer{"application/json": runtime.ConsumerFunc(func(rd io.Reader, v interface{}) error { _, err := io.ReadAll(rd); return err })}
		rt.Producers = map[string]runtime.Producer{"application/octet-stream": runtime.ByteStreamProducer()}
		src := &govcFile{Reader: &govcFailAt{data: append([]byte{}, payload...), at: 3000}, name: "stream"}
		_, err := rt.Submit(&runtime.ClientOperation{ID: "op", Method: "POST", PathPattern: "/up", Schemes: []string{"http"},
			ProducesMediaTypes: []string{"application/json"}, ConsumesMediaTypes: []string{"application/octet-stream"},
			AuthInfo: runtime.ClientAuthInfoWriterFunc(func(rq runtime.ClientRequest, _ strfmt.Registry) error { _ = rq.GetBody(); return nil }),
			Params:   runtime.ClientRequestWriterFunc(func(rq runtime.ClientRequest, _ strfmt.Registry) error { return rq.SetBodyParam(io.ReadCloser(src)) }),
			Reader:   runtime.ClientResponseReaderFunc(func(runtime.ClientResponse, runtime.Consumer) (interface{}, error) { return "read", nil })})
		checks++
		if err == nil {
			t.Fatalf("GOVC-STANDIN-FAIL a body-reading authentication writer with a source that fails after 3000 bytes: Submit reports success (%d bytes were sent)", sent)
		}
	}
	// a per-operation client overrides only its own call: the runtime's own client serves the calls after it
	{
		rt := New("example.org", "/api", []string{"http"})
		answer := func(tag string) http.RoundTripper {
			return govcTransport(func(r *http.Request) (*http.Response, error) {
				return &http.Response{StatusCode: 200, Header: http.Header{"Content-Type": {"application/json"}, "X-Via": {tag}}, Body: io.NopCloser(strings.NewReader("{}")), Request: r}, nil
			})
		}
		rt.Transport = answer("runtime")
		rt.Consumers = map[string]runtime.Consumer{"application/json": runtime.ConsumerFunc(func(rd io.Reader, v interface{}) error { _, err := io.ReadAll(rd); return err })}
		call := func(c *http.Client) (via string, err error) {
			defer func() {
				if p := recover(); p != nil {
					err = fmt.Errorf("panic: %v", p)
				}
			}()
			_, err = rt.Submit(&runtime.ClientOperation{ID: "op", Method: "GET", PathPattern: "/x", Schemes: []string{"http"}, Client: c,
				ProducesMediaTypes: []string{"application/json"}, ConsumesMediaTypes: []string{"application/json"},
				Params: runtime.ClientRequestWriterFunc(func(runtime.ClientRequest, strfmt.Registry) error { return nil }),
				Reader: runtime.ClientResponseReaderFunc(func(resp runtime.ClientResponse, _ runtime.Consumer) (interface{}, error) {
					via = resp.GetHeader("X-Via")
					return nil, nil
				})})
			return via, err
		}
		for k, c := range []*http.Client{{Transport: answer("operation")}, nil, {Transport: answer("operation")}, nil} {
			want := "runtime"
			if c != nil {
				want = "operation"
			}
			via, err := call(c)
			checks++
			if err != nil || via != want {
				t.Fatalf("GOVC-STANDIN-FAIL call %d of a sequence (operation client, none, operation client, none) on one runtime: answered through %q (error %v), want %q", k, via, err, want)
			}
		}
	}
	// no goroutine of any call is left behind
	deadline := time.Now().Add(10 * time.Second)
	for goruntime.NumGoroutine() > before+1 && time.Now().Before(deadline) {
		time.Sleep(20 * time.Millisecond)
	}
	if n := goruntime.NumGoroutine(); n > before+1 {
		buf := make([]byte, 1<<16)
		buf = buf[:goruntime.Stack(buf, true)]
		t.Fatalf("GOVC-STANDIN-FAIL %d goroutines are left after all calls returned (%d before):\n%s", n, before, buf)
	}
	fmt.Printf("GOVC-STANDIN name=submit scenarios=%d\n", checks)
}
