package header

// Bounded stand-in (not a proof): ParseAccept is under a safety contract only; which quality value
// is attached to which media range is checked here on header values BUILT from their parts, so the
// expected result is known by construction (no second parser is involved). Injected with
// `go test -overlay` by /verif's check of C07; it lives outside the repository.
//
// A header line is a comma-separated list of ranges; a range is  type/subtype, optional blanks, then any
// number of parameters  ;name=value  of which at most one is q. The generator enumerates every line of
// up to 2 (quick) / 3 (thorough) ranges over the parts below, with and without blanks around ';' ',' .
// Parameter names and values avoid the letter q, quotes and commas (a quoted "q=" inside another
// parameter's value is outside what the scanner can tell apart; that is a documented limit, not checked).

import (
	"fmt"
	"net/http"
	"os"
	"strings"
	"testing"
)

type govcRange struct {
	value string
	q     float64
	text  string
}

func govcRanges(thorough bool) []govcRange {
	types := []string{"text/html", "*/*", "application/json", "text/*"}
	others := []string{"", ";level=1", ";charset=utf-8;v=2"}
	qs := []struct {
		text string
		q    float64
	}{{"", 1}, {";q=0.5", 0.5}, {";q=0", 0}, {";q=1", 1}, {";q=0.25", 0.25}, {";q=.75", 0.75}, {";q=1.0", 1}}
	blanks := []string{"", " "}
	if thorough {
		types = append(types, "image/png")
		others = append(others, ";a=b;c=d;e=f")
		qs = append(qs, struct {
			text string
			q    float64
		}{";q=0.125", 0.125})
	}
	var out []govcRange
	for _, t := range types {
		for _, o := range others {
			for _, q := range qs {
				for _, b := range blanks {
					// parameters before q (the order clients use); blanks after every ';'
					text := t + strings.ReplaceAll(o, ";", b+";"+b) + strings.ReplaceAll(q.text, ";", b+";"+b)
					out = append(out, govcRange{t, q.q, text})
					if o != "" && q.text != "" {
						// q first, other parameters after it (accept-extensions)
						text2 := t + strings.ReplaceAll(q.text, ";", b+";"+b) + strings.ReplaceAll(o, ";", b+";"+b)
						out = append(out, govcRange{t, q.q, text2})
					}
				}
			}
		}
	}
	return out
}

func TestGovcStandInParseAccept(t *testing.T) {
	thorough := os.Getenv("VERIF_TIER") == "thorough"
	rs := govcRanges(thorough)
	maxRanges := 2
	if thorough {
		maxRanges = 3
	}
	// thin the product for the longer lines: every k-th range as 2nd / 3rd element
	step := 1
	if len(rs) > 120 {
		step = len(rs) / 120
	}
	lines, checked := 0, 0
	check := func(parts []govcRange, sep string) {
		var texts []string
		for _, p := range parts {
			texts = append(texts, p.text)
		}
		line := strings.Join(texts, sep)
		lines++
		got := ParseAccept(http.Header{"Accept": {line}}, "Accept")
		if len(got) != len(parts) {
			t.Fatalf("GOVC-STANDIN-FAIL ParseAccept(%q): %d ranges, want %d: %v", line, len(got), len(parts), got)
		}
		for i, p := range parts {
			checked++
			if got[i].Value != p.value || got[i].Q != p.q {
				t.Fatalf("GOVC-STANDIN-FAIL ParseAccept(%q): range %d is (%q, q=%v), want (%q, q=%v)", line, i, got[i].Value, got[i].Q, p.value, p.q)
			}
		}
	}
	for _, sep := range []string{",", ", ", " , "} {
		for _, a := range rs {
			check([]govcRange{a}, sep)
		}
		for _, a := range rs {
			for j := 0; j < len(rs); j += step {
				check([]govcRange{a, rs[j]}, sep)
				if maxRanges >= 3 {
					for k := 0; k < len(rs); k += step * 7 {
						check([]govcRange{a, rs[j], rs[k]}, sep)
					}
				}
			}
		}
	}
	fmt.Printf("GOVC-STANDIN name=parseaccept lines=%d ranges_checked=%d range_texts=%d sample=%q\n", lines, checked, len(rs), rs[len(rs)/2].text)
}
