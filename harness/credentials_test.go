package client

// Bounded stand-in (not a proof): the contracts of the client credential writers and of the server authenticators
// state which header or query parameter each writes/reads with which value; that what the client writes is what
// the server's callback receives is the round trip of base64 and of header/query transport (library) and is not
// decided by them. It is checked here on credentials BUILT from their parts; the oracle is identity.
// Injected with `go test -overlay` by /verif's check of C14.

import (
	"fmt"
	"net/http"
	"testing"

	"github.com/go-openapi/runtime"
	"github.com/go-openapi/runtime/security"
	"github.com/go-openapi/strfmt"
)

func govcBuild(t *testing.T, auth runtime.ClientAuthInfoWriter) *http.Request {
	req := newRequest(http.MethodGet, "/pets", runtime.ClientRequestWriterFunc(func(runtime.ClientRequest, strfmt.Registry) error { return nil }))
	hr, err := req.buildHTTP(runtime.JSONMime, "/api", nil, strfmt.Default, auth)
	if err != nil {
		t.Fatalf("GOVC-STANDIN-FAIL building a request with credentials: %v", err)
	}
	return hr
}

func TestGovcStandInCredentials(t *testing.T) {
	users := []string{"u", "user name", "é", "a@b.c", "x\"y"}
	passwords := []string{"", "p", "p:q", ":", "pä ss", "a=b&c", "%41", "  ", "\\"}
	tokens := []string{"t", "abc.def-ghi_jkl", "tok en", "a+b/c==", "é", "a=b&c", "%2B"}
	checks := 0
	for _, u := range users {
		for _, p := range passwords {
			hr := govcBuild(t, BasicAuth(u, p))
			var gotU, gotP string
			called := false
			ok, principal, err := security.BasicAuth(func(user, pass string) (interface{}, error) {
				gotU, gotP, called = user, pass, true
				return "principal", nil
			}).Authenticate(hr)
			checks++
			if !ok || err != nil || principal != "principal" || !called || gotU != u || gotP != p {
				t.Fatalf("GOVC-STANDIN-FAIL basic credentials (%q, %q): the server side got (%q, %q), applies=%v err=%v", u, p, gotU, gotP, ok, err)
			}
		}
	}
	for _, name := range []string{"X-Api-Key", "x-api-key", "api_key"} {
		for _, in := range []string{"header", "query"} {
			for _, tok := range tokens {
				hr := govcBuild(t, APIKeyAuth(name, in, tok))
				var got string
				called := false
				ok, _, err := security.APIKeyAuth(name, in, func(token string) (interface{}, error) {
					got, called = token, true
					return "principal", nil
				}).Authenticate(hr)
				checks++
				if !ok || err != nil || !called || got != tok {
					t.Fatalf("GOVC-STANDIN-FAIL api key %q in %s, token %q: the server side got %q (called %v), applies=%v err=%v", name, in, tok, got, called, ok, err)
				}
			}
		}
	}
	for _, tok := range tokens {
		hr := govcBuild(t, BearerToken(tok))
		var got string
		called := false
		ok, _, err := security.BearerAuth("oauth", func(token string, scopes []string) (interface{}, error) {
			got, called = token, true
			return "principal", nil
		}).Authenticate(&security.ScopedAuthRequest{Request: hr})
		checks++
		if !ok || err != nil || !called || got != tok {
			t.Fatalf("GOVC-STANDIN-FAIL bearer token %q: the server side got %q (called %v), applies=%v err=%v", tok, got, called, ok, err)
		}
	}
	// composed writers: every credential arrives
	hr := govcBuild(t, Compose(APIKeyAuth("X-Api-Key", "header", "k1"), APIKeyAuth("key", "query", "k2"), BasicAuth("u", "p:q")))
	for _, c := range []struct {
		name, in, want string
	}{{"X-Api-Key", "header", "k1"}, {"key", "query", "k2"}} {
		var got string
		ok, _, err := security.APIKeyAuth(c.name, c.in, func(token string) (interface{}, error) { got = token; return "p", nil }).Authenticate(hr)
		checks++
		if !ok || err != nil || got != c.want {
			t.Fatalf("GOVC-STANDIN-FAIL composed credentials: %s in %s arrived as %q, want %q", c.name, c.in, got, c.want)
		}
	}
	fmt.Printf("GOVC-STANDIN name=credentials checks=%d\n", checks)
}
