package runtime

// Bounded stand-in (not a proof): the contracts of the text, byte-stream and CSV codecs state which library call
// receives which value; that the bytes survive chunked and short reads and that producer and consumer are inverse
// to each other is the round-trip law of (mostly) library code and is NOT decided by them. It is checked here on
// generated values: the oracle is identity (what was produced must be consumed back unchanged), so no second
// implementation is involved. Injected with `go test -overlay` by /verif's checks of C15 and C16.

import (
	"bytes"
	"encoding/csv"
	"fmt"
	"io"
	"math/rand"
	"os"
	"reflect"
	"strconv"
	"strings"
	"testing"
	"testing/iotest"
)

type govcNamedString string
type govcNamedBytes []byte
type govcTable [][]string

func govcReaders(b []byte, r *rand.Rand) []io.Reader {
	return []io.Reader{
		bytes.NewReader(b),
		iotest.OneByteReader(bytes.NewReader(b)),
		iotest.HalfReader(bytes.NewReader(b)),
		iotest.DataErrReader(bytes.NewReader(b)),
		io.MultiReader(bytes.NewReader(b[:len(b)/2]), bytes.NewReader(b[len(b)/2:])),
	}
}

func govcPayload(r *rand.Rand, n int) []byte {
	alphabet := []byte("ab,;\"\n\r\t \x00\xff%é=&")
	b := make([]byte, n)
	for i := range b {
		if r.Intn(4) == 0 {
			b[i] = byte(r.Intn(256))
		} else {
			b[i] = alphabet[r.Intn(len(alphabet))]
		}
	}
	return b
}

func TestGovcStandInCodecRoundTrip(t *testing.T) {
	seed, _ := strconv.ParseInt(os.Getenv("VERIF_SEED"), 10, 64)
	rounds := 60
	if os.Getenv("VERIF_TIER") == "thorough" {
		rounds = 1500
	}
	r := rand.New(rand.NewSource(seed + 3))
	checks := 0
	sizes := []int{0, 1, 2, 511, 512, 513, 4095, 4096, 4097, 70000}
	for i := 0; i < rounds; i++ {
		n := sizes[r.Intn(len(sizes))]
		if n > 5000 && i%10 != 0 {
			n = r.Intn(300)
		}
		payload := govcPayload(r, n)

		// ---- byte stream: produce from every source kind, consume into every destination kind, chunked readers
		sources := []interface{}{payload, string(payload), govcNamedBytes(payload), govcNamedString(payload), bytes.NewReader(payload), &payload}
		for si, src := range sources {
			var wire bytes.Buffer
			if err := ByteStreamProducer().Produce(&wire, src); err != nil {
				t.Fatalf("GOVC-STANDIN-FAIL ByteStreamProducer source kind %d (%d bytes): %v", si, n, err)
			}
			if !bytes.Equal(wire.Bytes(), payload) {
				t.Fatalf("GOVC-STANDIN-FAIL ByteStreamProducer source kind %d: wrote %d bytes, want the %d source bytes unchanged (first difference at %d)", si, wire.Len(), n, govcDiff(wire.Bytes(), payload))
			}
			checks++
		}
		for ri, rd := range govcReaders(payload, r) {
			var asBytes []byte
			var asString string
			var asNamed govcNamedBytes
			var asNamedS govcNamedString
			var asAny interface{}
			var asBuf bytes.Buffer
			dests := []interface{}{&asBytes, &asString, &asNamed, &asNamedS, &asBuf}
			_ = asAny
			d := dests[r.Intn(len(dests))]
			if err := ByteStreamConsumer().Consume(rd, d); err != nil {
				t.Fatalf("GOVC-STANDIN-FAIL ByteStreamConsumer reader kind %d into %T (%d bytes): %v", ri, d, n, err)
			}
			var got []byte
			switch x := d.(type) {
			case *[]byte:
				got = *x
			case *string:
				got = []byte(*x)
			case *govcNamedBytes:
				got = []byte(*x)
			case *govcNamedString:
				got = []byte(*x)
			case *bytes.Buffer:
				got = x.Bytes()
			}
			if !bytes.Equal(got, payload) {
				t.Fatalf("GOVC-STANDIN-FAIL ByteStreamConsumer reader kind %d into %T: delivered %d bytes, want the %d sent bytes unchanged (first difference at %d)", ri, d, len(got), n, govcDiff(got, payload))
			}
			checks++
		}

		// ---- text: valid text only (the consumer hands over a string)
		if n > 0 {
			text := strings.ToValidUTF8(string(payload), "?")
			var wire bytes.Buffer
			if err := TextProducer().Produce(&wire, text); err != nil {
				t.Fatalf("GOVC-STANDIN-FAIL TextProducer (%d bytes): %v", len(text), err)
			}
			for ri, rd := range govcReaders(wire.Bytes(), r) {
				var back string
				if err := TextConsumer().Consume(rd, &back); err != nil {
					t.Fatalf("GOVC-STANDIN-FAIL TextConsumer reader kind %d: %v", ri, err)
				}
				if back != text {
					t.Fatalf("GOVC-STANDIN-FAIL text round trip, reader kind %d: %d bytes came back for %d (first difference at %d)", ri, len(back), len(text), govcDiff([]byte(back), []byte(text)))
				}
				checks++
			}
		}

		// ---- CSV: a table of records survives produce + consume, for the record-table kinds and separators
		rows, cols := r.Intn(6), 1+r.Intn(4)
		table := make([][]string, rows)
		for a := range table {
			table[a] = make([]string, cols)
			for b := range table[a] {
				table[a][b] = strings.ToValidUTF8(string(govcPayload(r, r.Intn(6))), "?")
				table[a][b] = strings.NewReplacer("\r", "", "\x00", "0").Replace(table[a][b]) // encoding/csv normalises \r\n inside quoted fields
			}
			if cols == 1 && table[a][0] == "" {
				table[a][0] = "x" // a record of one empty field is an empty line, which encoding/csv skips on reading
			}
		}
		for _, comma := range []rune{',', ';', '\t'} {
			opts := []CSVOpt{WithCSVReaderOpts(csv.Reader{Comma: comma}), WithCSVWriterOpts(csv.Writer{Comma: comma})}
			var wire bytes.Buffer
			if err := CSVProducer(opts...).Produce(&wire, table); err != nil {
				t.Fatalf("GOVC-STANDIN-FAIL CSVProducer %q %v: %v", comma, table, err)
			}
			for ri, rd := range govcReaders(wire.Bytes(), r) {
				var back [][]string
				var backNamed govcTable
				var d interface{} = &back
				if ri%2 == 1 {
					d = &backNamed
				}
				if err := CSVConsumer(opts...).Consume(rd, d); err != nil {
					t.Fatalf("GOVC-STANDIN-FAIL CSVConsumer %q reader kind %d, wire %q: %v", comma, ri, wire.String(), err)
				}
				got := back
				if ri%2 == 1 {
					got = [][]string(backNamed)
				}
				if len(got) != len(table) || (len(table) > 0 && !reflect.DeepEqual(got, table)) {
					t.Fatalf("GOVC-STANDIN-FAIL CSV round trip %q reader kind %d: got %q, want %q (wire %q)", comma, ri, got, table, wire.String())
				}
				checks++
			}
		}
	}
	fmt.Printf("GOVC-STANDIN name=codec-roundtrip rounds=%d checks=%d\n", rounds, checks)
}

func govcDiff(a, b []byte) int {
	for i := 0; i < len(a) && i < len(b); i++ {
		if a[i] != b[i] {
			return i
		}
	}
	if len(a) < len(b) {
		return len(a)
	}
	return len(b)
}
