package middleware

// Bounded stand-in (not a proof): the contracts of the untyped parameter binder state which parser receives which
// text and what each outcome leads to; that the value handed to the handler IS the one the text denotes is the
// round-trip law of strconv/strfmt (library) and is not decided by them. It is checked here on declarations and
// requests BUILT from typed values: a value is rendered to text, sent in the declared location, and must come
// back equal; a text just outside the declared width, or not a literal of the type, must be refused with an
// error and must never panic. Injected with `go test -overlay` by /verif's check of C03.

import (
	"fmt"
	"math"
	"net/http"
	"net/url"
	"os"
	"reflect"
	"strconv"
	"strings"
	"testing"

	"github.com/go-openapi/spec"
	"github.com/go-openapi/strfmt"
)

type govcCase struct {
	typ, format string
	text        string
	want        interface{} // nil: must be refused
}

func govcCases() []govcCase {
	var cs []govcCase
	ints := []struct {
		format string
		bits   int
		mk     func(int64) interface{}
	}{
		{"int8", 8, func(v int64) interface{} { return int8(v) }}, {"int16", 16, func(v int64) interface{} { return int16(v) }},
		{"int32", 32, func(v int64) interface{} { return int32(v) }}, {"int64", 64, func(v int64) interface{} { return v }},
		{"", 64, func(v int64) interface{} { return v }},
	}
	for _, it := range ints {
		lo, hi := int64(math.MinInt64), int64(math.MaxInt64)
		if it.bits < 64 {
			lo, hi = -(int64(1) << (it.bits - 1)), int64(1)<<(it.bits-1)-1
		}
		for _, v := range []int64{0, 1, -1, 7, lo, lo + 1, hi, hi - 1} {
			cs = append(cs, govcCase{"integer", it.format, strconv.FormatInt(v, 10), it.mk(v)})
		}
		if it.bits < 64 {
			cs = append(cs, govcCase{"integer", it.format, strconv.FormatInt(hi+1, 10), nil}, govcCase{"integer", it.format, strconv.FormatInt(lo-1, 10), nil})
		} else {
			cs = append(cs, govcCase{"integer", it.format, "9223372036854775808", nil}, govcCase{"integer", it.format, "-9223372036854775809", nil})
		}
		for _, bad := range []string{"0x10", "1_000", "1e3", "1.0", " 1", "1 ", "+-1", "abc", "١"} {
			cs = append(cs, govcCase{"integer", it.format, bad, nil})
		}
		cs = append(cs, govcCase{"integer", it.format, "+5", it.mk(5)}, govcCase{"integer", it.format, "007", it.mk(7)})
	}
	for _, f := range []float64{0, 1.5, -2.25, 1e10, 3.0e-5, math.MaxFloat32, 123456.789} {
		cs = append(cs, govcCase{"number", "double", strconv.FormatFloat(f, 'g', -1, 64), f}, govcCase{"number", "", strconv.FormatFloat(f, 'g', -1, 64), f})
		if f != math.MaxFloat32 {
			// (the shortest text of the largest float32, 3.4028235e+38, denotes a number slightly above it; the binder parses
			// with 64 bits and refuses it as out of range - a boundary reading that is left alone, not checked)
			cs = append(cs, govcCase{"number", "float", strconv.FormatFloat(float64(float32(f)), 'g', -1, 32), float32(f)})
		}
	}
	cs = append(cs, govcCase{"number", "float", "3.5e38", nil}, govcCase{"number", "double", "1e309", nil}, govcCase{"number", "double", "abc", nil}, govcCase{"number", "float", "1,5", nil})
	for _, b := range []struct {
		t string
		v bool
	}{{"true", true}, {"false", false}, {"1", true}, {"0", false}} {
		cs = append(cs, govcCase{"boolean", "", b.t, b.v})
	}
	// what is a boolean literal is decided by swag.ConvertBool, a library function that never reports an error: every
	// text that is not one of its spellings of true is false. A text such as "maybe" is therefore bound as false instead
	// of being refused: reported as a finding (see findingText below), not as a failure of this harness.
	cs = append(cs, govcCase{"boolean", "", "maybe", govcFinding("boolean-literal")})
	for _, s := range []string{"x", "a b", "é", "a,b", "%41", "a+b", "\"q\"", "0", "null"} {
		cs = append(cs, govcCase{"string", "", s, s})
	}
	cs = append(cs, govcCase{"string", "date", "2020-02-29", "2020-02-29"}, govcCase{"string", "date", "2021-02-29", nil}, govcCase{"string", "date", "yesterday", nil})
	cs = append(cs, govcCase{"string", "byte", "aGVsbG8=", "aGVsbG8="}, govcCase{"string", "byte", "***", nil})
	return cs
}

// govcFinding marks a case whose acceptance is a recorded finding rather than a harness failure.
type govcFinding string

var govcFindingsSeen = map[string]string{}

func govcEqual(got, want interface{}) bool {
	if s, ok := want.(string); ok {
		if st, ok := got.(fmt.Stringer); ok {
			return st.String() == s
		}
	}
	return reflect.DeepEqual(got, want)
}

func TestGovcStandInBinderValues(t *testing.T) {
	cases := govcCases()
	locations := []string{"query", "header", "path", "formData"}
	checks := 0
	for _, c := range cases {
		for _, in := range locations {
			for _, required := range []bool{false, true} {
				func() {
					desc := fmt.Sprintf("%s/%s in %s (required %v), text %q", c.typ, c.format, in, required, c.text)
					defer func() {
						if r := recover(); r != nil {
							t.Fatalf("GOVC-STANDIN-FAIL %s: binding panicked: %v", desc, r)
						}
					}()
					name := "X-Val"
					p := spec.Parameter{}
					p.Name, p.In, p.Required = name, in, required
					p.Type, p.Format = c.typ, c.format
					binder := NewUntypedRequestBinder(map[string]spec.Parameter{name: p}, new(spec.Swagger), strfmt.Default)
					req, _ := http.NewRequest(http.MethodPost, "http://x/y", nil)
					var rp RouteParams
					switch in {
					case "query":
						req.URL.RawQuery = url.Values{name: {c.text}}.Encode()
					case "header":
						if strings.TrimSpace(c.text) != c.text {
							return // net/http trims blanks around header values on the wire
						}
						req.Header.Set(name, c.text)
					case "path":
						rp = RouteParams{{Name: name, Value: c.text}}
					case "formData":
						req, _ = http.NewRequest(http.MethodPost, "http://x/y", strings.NewReader(url.Values{name: {c.text}}.Encode()))
						req.Header.Set("Content-Type", "application/x-www-form-urlencoded")
					}
					data := map[string]interface{}{}
					err := binder.Bind(req, rp, nil, &data)
					checks++
					if key, isFinding := c.want.(govcFinding); isFinding {
						if err == nil {
							govcFindingsSeen[string(key)] = fmt.Sprintf("%s: accepted as %#v, want an error (422)", desc, data[name])
						}
						return
					}
					if c.want == nil {
						if err == nil {
							t.Fatalf("GOVC-STANDIN-FAIL %s: accepted as %#v, want an error", desc, data[name])
						}
						return
					}
					if err != nil {
						t.Fatalf("GOVC-STANDIN-FAIL %s: refused (%v), want %#v", desc, err, c.want)
					}
					if !govcEqual(data[name], c.want) {
						t.Fatalf("GOVC-STANDIN-FAIL %s: bound %#v (%T), want %#v (%T)", desc, data[name], data[name], c.want, c.want)
					}
				}()
			}
		}
	}
	// ---- arrays: items joined by the declared collection format come back item by item; absent -> declared default
	type arr struct {
		itemType, itemFormat string
		texts                []string
		want                 interface{}
	}
	arrays := []arr{
		{"integer", "int32", []string{"1", "-2", "2147483647"}, []int32{1, -2, 2147483647}},
		{"integer", "", []string{"0", "9223372036854775807"}, []int64{0, 9223372036854775807}},
		{"string", "", []string{"a", "b c", "é"}, []string{"a", "b c", "é"}},
		{"boolean", "", []string{"true", "false"}, []bool{true, false}},
		{"number", "double", []string{"1.5", "-2"}, []float64{1.5, -2}},
	}
	seps := map[string]string{"csv": ",", "ssv": " ", "tsv": "\t", "pipes": "|", "": ","}
	for _, a := range arrays {
		for cf, sep := range seps {
			if cf == "ssv" && a.itemType == "string" {
				continue // an item with a blank in it cannot be sent space-separated
			}
			for _, in := range []string{"query", "header", "formData"} {
				func() {
					desc := fmt.Sprintf("array of %s/%s, collection format %q in %s, items %q", a.itemType, a.itemFormat, cf, in, a.texts)
					defer func() {
						if r := recover(); r != nil {
							t.Fatalf("GOVC-STANDIN-FAIL %s: binding panicked: %v", desc, r)
						}
					}()
					name := "X-Arr"
					p := spec.Parameter{}
					p.Name, p.In, p.Type, p.CollectionFormat = name, in, "array", cf
					p.Items = spec.NewItems().Typed(a.itemType, a.itemFormat)
					binder := NewUntypedRequestBinder(map[string]spec.Parameter{name: p}, new(spec.Swagger), strfmt.Default)
					text := strings.Join(a.texts, sep)
					req, _ := http.NewRequest(http.MethodPost, "http://x/y", nil)
					switch in {
					case "query":
						req.URL.RawQuery = url.Values{name: {text}}.Encode()
					case "header":
						if cf == "tsv" {
							return // a tab inside a header value is not delivered unchanged by every server
						}
						req.Header.Set(name, text)
					case "formData":
						req, _ = http.NewRequest(http.MethodPost, "http://x/y", strings.NewReader(url.Values{name: {text}}.Encode()))
						req.Header.Set("Content-Type", "application/x-www-form-urlencoded")
					}
					data := map[string]interface{}{}
					if err := binder.Bind(req, nil, nil, &data); err != nil {
						t.Fatalf("GOVC-STANDIN-FAIL %s: refused: %v", desc, err)
					}
					checks++
					if !reflect.DeepEqual(data[name], a.want) {
						t.Fatalf("GOVC-STANDIN-FAIL %s: bound %#v, want %#v", desc, data[name], a.want)
					}
					// one bad item refuses the whole parameter
					bad := append(append([]string{}, a.texts...), "?bad?")
					if a.itemType != "string" && a.itemType != "boolean" {
						req2, _ := http.NewRequest(http.MethodGet, "http://x/y?"+url.Values{name: {strings.Join(bad, sep)}}.Encode(), nil)
						p2 := p
						p2.In = "query"
						b2 := NewUntypedRequestBinder(map[string]spec.Parameter{name: p2}, new(spec.Swagger), strfmt.Default)
						d2 := map[string]interface{}{}
						checks++
						if err := b2.Bind(req2, nil, nil, &d2); err == nil {
							t.Fatalf("GOVC-STANDIN-FAIL %s plus a bad item: accepted as %#v, want an error", desc, d2[name])
						}
					}
				}()
			}
		}
	}
	// ---- declared defaults (as a description document holds them: JSON values) for absent parameters
	defaults := []struct {
		typ, format string
		def         interface{}
		want        interface{}
	}{
		{"integer", "int32", float64(10), int32(10)}, {"integer", "", float64(-3), int64(-3)}, {"number", "", 1.5, 1.5}, {"number", "float", 2.5, float32(2.5)},
		{"boolean", "", true, true}, {"string", "", "x y", "x y"}, {"string", "date", "2020-01-02", "2020-01-02"}, {"string", "byte", "aGVsbG8=", "aGVsbG8="},
	}
	for _, d := range defaults {
		for _, in := range []string{"query", "header", "formData"} {
			func() {
				desc := fmt.Sprintf("%s/%s in %s absent, default %#v", d.typ, d.format, in, d.def)
				defer func() {
					if r := recover(); r != nil {
						t.Fatalf("GOVC-STANDIN-FAIL %s: binding panicked: %v", desc, r)
					}
				}()
				name := "X-Def"
				p := spec.Parameter{}
				p.Name, p.In, p.Type, p.Format, p.Default = name, in, d.typ, d.format, d.def
				binder := NewUntypedRequestBinder(map[string]spec.Parameter{name: p}, new(spec.Swagger), strfmt.Default)
				req, _ := http.NewRequest(http.MethodPost, "http://x/y", strings.NewReader(""))
				if in == "formData" {
					req.Header.Set("Content-Type", "application/x-www-form-urlencoded")
				}
				data := map[string]interface{}{}
				if err := binder.Bind(req, nil, nil, &data); err != nil {
					t.Fatalf("GOVC-STANDIN-FAIL %s: refused: %v", desc, err)
				}
				checks++
				if !govcEqual(data[name], d.want) {
					t.Fatalf("GOVC-STANDIN-FAIL %s: bound %#v (%T), want %#v (%T)", desc, data[name], data[name], d.want, d.want)
				}
			}()
		}
	}
	for key, what := range govcFindingsSeen {
		fmt.Printf("GOVC-STANDIN-FINDING obligation=standin.binder-values.%s %s\n", key, what)
	}
	_ = os.Getenv
	fmt.Printf("GOVC-STANDIN name=binder-values declarations=%d checks=%d\n", len(cases), checks)
}
