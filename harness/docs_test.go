package middleware_test

// Bounded stand-in (not a proof): the contracts of C20 prove which path each documentation middleware answers and that
// the page is rendered by html/template from the options; that the page text never carries an option value unescaped, and
// that the URL the default handlers' page points to is the URL at which the same handler serves the description, are facts
// about template contents and URL handling that no contract decides. Checked here on options BUILT from their parts.
// Injected with `go test -overlay` by /verif's check of C20.

import (
	"encoding/json"
	"fmt"
	"net/http"
	"net/http/httptest"
	"strings"
	"testing"

	"github.com/go-openapi/loads"
	"github.com/go-openapi/runtime/middleware"
	"github.com/go-openapi/runtime/middleware/untyped"
)

func TestGovcStandInDocs(t *testing.T) {
	hostile := []string{`<script>alert(1)</script>`, `"><img src=x onerror=alert(1)>`, `'; alert(1); '`, `</title><b>x`, `a&b<c`}
	bases := []string{"", "/", "/api", "/api/"}
	pths := []string{"", "docs", "ui/docs"}
	next := http.HandlerFunc(func(w http.ResponseWriter, _ *http.Request) { w.WriteHeader(http.StatusTeapot) })
	checks := 0
	get := func(h http.Handler, target string) *httptest.ResponseRecorder {
		rec := httptest.NewRecorder()
		h.ServeHTTP(rec, httptest.NewRequest(http.MethodGet, "http://example.org"+target, nil))
		return rec
	}
	for _, base := range bases {
		for _, pth := range pths {
			for _, bad := range hostile {
				flavors := map[string]http.Handler{
					"redoc":     middleware.Redoc(middleware.RedocOpts{BasePath: base, Path: pth, Title: bad, SpecURL: "/spec.json?x=" + bad}, next),
					"rapidoc":   middleware.RapiDoc(middleware.RapiDocOpts{BasePath: base, Path: pth, Title: bad, SpecURL: "/spec.json?x=" + bad}, next),
					"swaggerui": middleware.SwaggerUI(middleware.SwaggerUIOpts{BasePath: base, Path: pth, Title: bad, SpecURL: "/spec.json?x=" + bad}, next),
				}
				effBase, effPath := base, pth
				if effBase == "" {
					effBase = "/"
				}
				if effPath == "" {
					effPath = "docs"
				}
				page := strings.TrimSuffix(effBase, "/") + "/" + effPath
				for name, h := range flavors {
					rec := get(h, page)
					checks++
					if rec.Code != http.StatusOK || !strings.HasPrefix(rec.Header().Get("Content-Type"), "text/html") {
						t.Fatalf("GOVC-STANDIN-FAIL %s with base %q path %q: GET %s answers %d %q, want the page", name, base, pth, page, rec.Code, rec.Header().Get("Content-Type"))
					}
					if strings.Contains(rec.Body.String(), bad) {
						t.Fatalf("GOVC-STANDIN-FAIL %s page: the option value %q appears unescaped in the page", name, bad)
					}
					// any other path is passed on untouched
					for _, other := range []string{page + "/", page + "x", "/", page + "/../other"} {
						if strings.TrimSuffix(other, "/") == page || other == page {
							continue
						}
						rec := get(h, other)
						checks++
						if rec.Code != http.StatusTeapot {
							t.Fatalf("GOVC-STANDIN-FAIL %s with page %s: GET %s answers %d, want it passed on to the next handler", name, page, other, rec.Code)
						}
					}
				}
			}
		}
	}
	// the default API handlers: the page's description URL is served by the same handler, with the description's bytes
	for _, base := range []string{"/", "/api", "/v1/x"} {
		raw := []byte(fmt.Sprintf(`{"swagger":"2.0","info":{"title":"t","version":"1"},"basePath":%q,"paths":{}}`, base))
		spec, err := loads.Analyzed(json.RawMessage(raw), "")
		if err != nil {
			t.Fatal(err)
		}
		ctx := middleware.NewContext(spec, untyped.NewAPI(spec), nil)
		for name, h := range map[string]http.Handler{"redoc": ctx.APIHandler(nil), "swaggerui": ctx.APIHandlerSwaggerUI(nil), "rapidoc": ctx.APIHandlerRapiDoc(nil)} {
			page := strings.TrimSuffix(base, "/") + "/docs"
			rec := get(h, page)
			checks++
			if rec.Code != http.StatusOK {
				t.Fatalf("GOVC-STANDIN-FAIL default %s handler, base path %q: GET %s answers %d", name, base, page, rec.Code)
			}
			specURL := "/swagger.json" // (documented: the page under {base path}/docs, the description at /swagger.json)
			if !strings.Contains(rec.Body.String(), specURL) {
				t.Fatalf("GOVC-STANDIN-FAIL default %s handler, base path %q: the page does not point to %s", name, base, specURL)
			}
			rec = get(h, specURL)
			checks++
			if rec.Code != http.StatusOK || !strings.Contains(rec.Header().Get("Content-Type"), "json") || !strings.Contains(rec.Body.String(), `"swagger"`) {
				t.Fatalf("GOVC-STANDIN-FAIL default %s handler, base path %q: GET %s (the URL the page points to) answers %d %q", name, base, specURL, rec.Code, rec.Header().Get("Content-Type"))
			}
		}
	}
	fmt.Printf("GOVC-STANDIN name=docs checks=%d\n", checks)
}
