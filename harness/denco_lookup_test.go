package denco

// Bounded stand-in (not a proof): completeness, parameter values, literal-over-parameter precedence and
// independence from the insertion order of the trie router are NOT decided by the contracts (they need a proof
// of Build). They are checked here on pattern sets and on paths BUILT from the patterns, so that what a lookup
// must answer is known by construction. Injected with `go test -overlay` by /verif's check of C05.
//
// Patterns: 1..4 segments, each a literal, a ':name' parameter (whole segment) or a final '*name' wildcard.
// Paths: every pattern of the set instantiated with parameter values from a small pool (values never contain
// '/', ':' , '*' or '#'). For such a path the router must (a) find a pattern, (b) the found pattern must be
// instantiated by the path, with exactly the parameter values the path carries at that pattern's parameter
// positions, (c) if some pattern of the set is literally equal to the path, that one is found, (d) the answer
// does not depend on the order in which the records were given to Build, (e) among the patterns the path instantiates
// the answer is the one that prefers a literal to a parameter and a parameter to a wildcard at the first segment where
// they differ, (f) a path that instantiates no pattern of the set (random paths over the same segments) is not found.

import (
	"fmt"
	"math/rand"
	"os"
	"strconv"
	"strings"
	"testing"
)

func govcLkPattern(r *rand.Rand) string {
	segs := []string{"a", "b", "ab", "users", "x", "items", "v1", "a.b", "x-y"}
	var b strings.Builder
	n := 1 + r.Intn(4)
	for i := 0; i < n; i++ {
		b.WriteByte('/')
		switch k := r.Intn(10); {
		case k < 5:
			b.WriteString(segs[r.Intn(len(segs))])
		case k < 9:
			b.WriteString(":p" + strconv.Itoa(i))
		default:
			if i == n-1 {
				b.WriteString("*w")
			} else {
				b.WriteString(segs[r.Intn(len(segs))])
			}
		}
	}
	return b.String()
}

// govcInstantiates reports whether path instantiates pattern and with which values (by name).
func govcInstantiates(pattern, path string) (map[string]string, bool) {
	ps := strings.Split(pattern, "/")[1:]
	xs := strings.Split(path, "/")[1:]
	vals := map[string]string{}
	for i, p := range ps {
		switch {
		case strings.HasPrefix(p, "*"):
			if i >= len(xs) {
				return nil, false
			}
			vals[p[1:]] = strings.Join(xs[i:], "/")
			return vals, true
		case i >= len(xs):
			return nil, false
		case strings.HasPrefix(p, ":"):
			vals[p[1:]] = xs[i]
		case p != xs[i]:
			return nil, false
		}
	}
	return vals, len(ps) == len(xs)
}

// govcKinds: per segment 0 literal, 1 parameter, 2 wildcard (for the precedence order)
func govcKinds(pattern string) []int {
	var out []int
	for _, p := range strings.Split(pattern, "/")[1:] {
		switch {
		case strings.HasPrefix(p, "*"):
			out = append(out, 2)
		case strings.HasPrefix(p, ":"):
			out = append(out, 1)
		default:
			out = append(out, 0)
		}
	}
	return out
}

func govcPrefers(a, b string) bool {
	ka, kb := govcKinds(a), govcKinds(b)
	for i := 0; i < len(ka) && i < len(kb); i++ {
		if ka[i] != kb[i] {
			return ka[i] < kb[i]
		}
	}
	return false
}

func TestGovcStandInLookup(t *testing.T) {
	seed, _ := strconv.ParseInt(os.Getenv("VERIF_SEED"), 10, 64)
	sets := 300
	if os.Getenv("VERIF_TIER") == "thorough" {
		sets = 5000
	}
	r := rand.New(rand.NewSource(seed + 2))
	pool := []string{"a", "b", "zz", "users", "42", "x-y", "a.b", "%2F", "q=1", "é"}
	built, lookups := 0, 0
	segs := []string{"a", "b", "ab", "users", "x", "items", "v1", "a.b", "x-y", "zz", "42"}
	for i := 0; i < sets; i++ {
		n := 1 + r.Intn(10)
		seen := map[string]bool{}
		var recs []Record
		for len(recs) < n {
			p := govcLkPattern(r)
			if seen[p] {
				continue
			}
			seen[p] = true
			recs = append(recs, Record{Key: p, Value: p})
		}
		rt := New()
		if err := rt.Build(recs); err != nil {
			continue // refused by Build: outside the property
		}
		shuffled := append([]Record{}, recs...)
		r.Shuffle(len(shuffled), func(a, b int) { shuffled[a], shuffled[b] = shuffled[b], shuffled[a] })
		rt2 := New()
		if err := rt2.Build(shuffled); err != nil {
			t.Fatalf("GOVC-STANDIN-FAIL Build accepts %v but refuses the same records in another order %v: %v", recs, shuffled, err)
		}
		built++
		for _, rec := range recs {
			// instantiate rec.Key
			var b strings.Builder
			for _, p := range strings.Split(rec.Key, "/")[1:] {
				b.WriteByte('/')
				switch {
				case strings.HasPrefix(p, ":"):
					b.WriteString(pool[r.Intn(len(pool))])
				case strings.HasPrefix(p, "*"):
					b.WriteString(pool[r.Intn(len(pool))])
					if r.Intn(2) == 0 {
						b.WriteString("/" + pool[r.Intn(len(pool))])
					}
				default:
					b.WriteString(p)
				}
			}
			path := b.String()
			lookups++
			data, params, found := rt.Lookup(path)
			if !found {
				t.Fatalf("GOVC-STANDIN-FAIL patterns %v: Lookup(%q) finds nothing although the path instantiates %q", recs, path, rec.Key)
			}
			got := data.(string)
			want, ok := govcInstantiates(got, path)
			if !ok {
				t.Fatalf("GOVC-STANDIN-FAIL patterns %v: Lookup(%q) answers pattern %q, which the path does not instantiate", recs, path, got)
			}
			if len(params) != len(want) {
				t.Fatalf("GOVC-STANDIN-FAIL patterns %v: Lookup(%q) = %q with parameters %v, want %v", recs, path, got, params, want)
			}
			for _, p := range params {
				if v, ok := want[p.Name]; !ok || v != p.Value {
					t.Fatalf("GOVC-STANDIN-FAIL patterns %v: Lookup(%q) = %q with parameters %v, want %v", recs, path, got, params, want)
				}
			}
			if seen[path] && got != path {
				t.Fatalf("GOVC-STANDIN-FAIL patterns %v: Lookup(%q) answers %q although the set holds the literal pattern", recs, path, got)
			}
			for _, other := range recs {
				if _, ok := govcInstantiates(other.Key, path); ok && govcPrefers(other.Key, got) {
					t.Fatalf("GOVC-STANDIN-FAIL patterns %v: Lookup(%q) answers %q although %q fits and prefers a literal (or a parameter to a wildcard) at the first segment where they differ", recs, path, got, other.Key)
				}
			}
			data2, params2, found2 := rt2.Lookup(path)
			if !found2 || data2.(string) != got || fmt.Sprint(params2) != fmt.Sprint(params) {
				t.Fatalf("GOVC-STANDIN-FAIL Lookup(%q) depends on the insertion order: %q %v for %v, %v %v for %v", path, got, params, recs, data2, params2, shuffled)
			}
		}
		// random paths: found iff some pattern is instantiated
		for k := 0; k < 6; k++ {
			var b strings.Builder
			for j, m := 0, 1+r.Intn(4); j < m; j++ {
				b.WriteString("/" + segs[r.Intn(len(segs))])
			}
			path := b.String()
			lookups++
			data, _, found := rt.Lookup(path)
			fits := ""
			for _, rec := range recs {
				if _, ok := govcInstantiates(rec.Key, path); ok {
					fits = rec.Key
				}
			}
			if found && fits == "" {
				t.Fatalf("GOVC-STANDIN-FAIL patterns %v: Lookup(%q) answers %v although the path instantiates no pattern", recs, path, data)
			}
			if !found && fits != "" {
				t.Fatalf("GOVC-STANDIN-FAIL patterns %v: Lookup(%q) finds nothing although the path instantiates %q", recs, path, fits)
			}
		}
	}
	// which keys go into the trie at all: a key is parameterised exactly when a ':' or '*' opens one of its segments
	// ("/:", "/*") or follows '=' ("=:"); a marker elsewhere in a segment does not decide it either way
	for key, wantParam := range map[string]bool{
		"/a": false, "/a/b": false, "/a:b": false, "/a*b": false, "/k=v": false, "/a:b/c*d": false,
		"/:x": true, "/a/:x": true, "/a/*w": true, "/k=:v": true,
		"/ns:thing/:id": true, "/files:meta/*rest": true, "/a*b/:x": true, "/k=v/:x": true, "/ns:thing/k=:v": true,
	} {
		statics, params := makeRecords([]Record{{Key: key, Value: key}})
		lookups++
		if gotParam := len(params) == 1 && len(statics) == 0; gotParam != wantParam {
			t.Fatalf("GOVC-STANDIN-FAIL makeRecords files the key %q as parameterised=%v (statics %d, parameterised %d), want %v", key, gotParam, len(statics), len(params), wantParam)
		}
	}
	fmt.Printf("GOVC-STANDIN name=denco-lookup sets=%d built=%d lookups=%d\n", sets, built, lookups)
}
