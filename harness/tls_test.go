package client

// Bounded stand-in (not a proof): the contract of TLSClientAuth proves, for all option values, which fields of the
// tls.Config are set from which options; what crypto/tls then does with that configuration during a handshake is the
// library's and is not decided by it. It is checked here with real handshakes against servers BUILT for the purpose:
// whether the handshake must succeed, and which client certificate the server must see, is known by construction.
// Injected with `go test -overlay` by /verif's check of C18.

import (
	"crypto/ecdsa"
	"crypto/elliptic"
	"crypto/rand"
	"crypto/tls"
	"crypto/x509"
	"crypto/x509/pkix"
	"encoding/pem"
	"fmt"
	"math/big"
	"net"
	"net/http"
	"net/http/httptest"
	"os"
	"path/filepath"
	"testing"
	"time"
)

func govcCert(t *testing.T, cn string, hosts []string, parent *x509.Certificate, parentKey *ecdsa.PrivateKey, isCA bool) (*x509.Certificate, *ecdsa.PrivateKey, []byte) {
	key, err := ecdsa.GenerateKey(elliptic.P256(), rand.Reader)
	if err != nil {
		t.Fatal(err)
	}
	tmpl := &x509.Certificate{SerialNumber: big.NewInt(time.Now().UnixNano()), Subject: pkix.Name{CommonName: cn}, NotBefore: time.Now().Add(-time.Hour), NotAfter: time.Now().Add(time.Hour),
		KeyUsage: x509.KeyUsageDigitalSignature | x509.KeyUsageCertSign, ExtKeyUsage: []x509.ExtKeyUsage{x509.ExtKeyUsageServerAuth, x509.ExtKeyUsageClientAuth}, BasicConstraintsValid: true, IsCA: isCA}
	for _, h := range hosts {
		if ip := net.ParseIP(h); ip != nil {
			tmpl.IPAddresses = append(tmpl.IPAddresses, ip)
		} else {
			tmpl.DNSNames = append(tmpl.DNSNames, h)
		}
	}
	if parent == nil {
		parent, parentKey = tmpl, key
	}
	der, err := x509.CreateCertificate(rand.Reader, tmpl, parent, &key.PublicKey, parentKey)
	if err != nil {
		t.Fatal(err)
	}
	cert, _ := x509.ParseCertificate(der)
	return cert, key, der
}

func TestGovcStandInTLS(t *testing.T) {
	ca, caKey, caDER := govcCert(t, "test ca", nil, nil, nil, true)
	srvCert, srvKey, srvDER := govcCert(t, "server", []string{"example.test", "127.0.0.1"}, ca, caKey, false)
	otherCA, _, _ := govcCert(t, "other ca", nil, nil, nil, true)
	cliCert, cliKey, cliDER := govcCert(t, "client", nil, ca, caKey, false)
	dir := t.TempDir()
	caFile := filepath.Join(dir, "ca.pem")
	_ = os.WriteFile(caFile, pem.EncodeToMemory(&pem.Block{Type: "CERTIFICATE", Bytes: caDER}), 0o600)
	certFile, keyFile := filepath.Join(dir, "c.pem"), filepath.Join(dir, "k.pem")
	_ = os.WriteFile(certFile, pem.EncodeToMemory(&pem.Block{Type: "CERTIFICATE", Bytes: cliDER}), 0o600)
	kb, _ := x509.MarshalECPrivateKey(cliKey)
	_ = os.WriteFile(keyFile, pem.EncodeToMemory(&pem.Block{Type: "EC PRIVATE KEY", Bytes: kb}), 0o600)

	var seenClient []*x509.Certificate
	srv := httptest.NewUnstartedServer(http.HandlerFunc(func(w http.ResponseWriter, r *http.Request) {
		seenClient = r.TLS.PeerCertificates
		_, _ = w.Write([]byte("ok"))
	}))
	srv.TLS = &tls.Config{Certificates: []tls.Certificate{{Certificate: [][]byte{srvDER}, PrivateKey: srvKey}}, ClientAuth: tls.RequestClientCert, MinVersion: tls.VersionTLS12}
	srv.StartTLS()
	defer srv.Close()
	pool := x509.NewCertPool()
	pool.AddCert(ca)
	otherPool := x509.NewCertPool()
	otherPool.AddCert(otherCA)
	_ = srvCert

	cases := []struct {
		name    string
		opts    TLSClientOptions
		succeed bool
		client  bool // the server must see the client certificate
	}{
		{"no roots given: the server's private CA is unknown", TLSClientOptions{}, false, false},
		{"InsecureSkipVerify", TLSClientOptions{InsecureSkipVerify: true}, true, false},
		{"LoadedCA", TLSClientOptions{LoadedCA: ca}, true, false},
		{"CA file", TLSClientOptions{CA: caFile}, true, false},
		{"LoadedCAPool", TLSClientOptions{LoadedCAPool: pool}, true, false},
		{"another CA", TLSClientOptions{LoadedCA: otherCA}, false, false},
		{"another pool, and the right CA file added to it", TLSClientOptions{LoadedCAPool: otherPool, CA: caFile}, true, false},
		{"right CA, matching server name", TLSClientOptions{LoadedCA: ca, ServerName: "example.test"}, true, false},
		{"right CA, wrong server name", TLSClientOptions{LoadedCA: ca, ServerName: "wrong.test"}, false, false},
		{"wrong server name with InsecureSkipVerify: verification stays on", TLSClientOptions{LoadedCA: ca, ServerName: "wrong.test", InsecureSkipVerify: true}, false, false},
		{"client certificate from files", TLSClientOptions{LoadedCA: ca, Certificate: certFile, Key: keyFile}, true, true},
		{"client certificate in memory", TLSClientOptions{LoadedCA: ca, LoadedCertificate: cliCert, LoadedKey: cliKey}, true, true},
		{"VerifyPeerCertificate refusing", TLSClientOptions{LoadedCA: ca, VerifyPeerCertificate: func([][]byte, [][]*x509.Certificate) error { return fmt.Errorf("no") }}, false, false},
	}
	checks := 0
	for _, c := range cases {
		cfg, err := TLSClientAuth(c.opts)
		if err != nil {
			t.Fatalf("GOVC-STANDIN-FAIL %s: TLSClientAuth: %v", c.name, err)
		}
		if cfg.MinVersion < tls.VersionTLS12 {
			t.Fatalf("GOVC-STANDIN-FAIL %s: MinVersion %x is below TLS 1.2", c.name, cfg.MinVersion)
		}
		seenClient = nil
		hc := &http.Client{Transport: &http.Transport{TLSClientConfig: cfg}, Timeout: 10 * time.Second}
		resp, err := hc.Get(srv.URL)
		checks++
		if err == nil {
			_ = resp.Body.Close()
		}
		if c.succeed && err != nil {
			t.Fatalf("GOVC-STANDIN-FAIL %s: the handshake fails: %v", c.name, err)
		}
		if !c.succeed && err == nil {
			t.Fatalf("GOVC-STANDIN-FAIL %s: the handshake succeeds although the server must not be trusted", c.name)
		}
		if c.succeed && c.client && (len(seenClient) != 1 || !seenClient[0].Equal(cliCert)) {
			t.Fatalf("GOVC-STANDIN-FAIL %s: the server saw %d client certificates, want exactly the configured one", c.name, len(seenClient))
		}
		if c.succeed && !c.client && len(seenClient) != 0 {
			t.Fatalf("GOVC-STANDIN-FAIL %s: the server saw a client certificate although none was configured", c.name)
		}
	}
	// unusable material must be an error, never a configuration without the certificate
	for name, o := range map[string]TLSClientOptions{
		"certificate file without key":   {Certificate: certFile},
		"missing certificate file":       {Certificate: filepath.Join(dir, "nope.pem"), Key: keyFile},
		"key that does not match":        {LoadedCertificate: cliCert, LoadedKey: caKey},
		"missing CA file":                {CA: filepath.Join(dir, "nope-ca.pem")},
		"loaded certificate without key": {LoadedCertificate: cliCert},
	} {
		checks++
		if cfg, err := TLSClientAuth(o); err == nil {
			t.Fatalf("GOVC-STANDIN-FAIL %s: TLSClientAuth returns a configuration (%d certificates) and no error", name, len(cfg.Certificates))
		}
	}
	fmt.Printf("GOVC-STANDIN name=tls checks=%d\n", checks)
}
