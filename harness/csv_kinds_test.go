package runtime

// Bounded stand-in (not a proof): the contracts of the CSV codec state, per source and destination kind, which reader
// and writer are created with which options and which copy routine runs; that EVERY kind delivers exactly the parsed
// records (all kinds agree) is shown only structurally by them. It is checked here on tables BUILT from known records:
// every source kind of the producer and every destination kind of the consumer must carry the same records, with the
// same separator and the same number of skipped lines. Injected with `go test -overlay` by /verif's check of C16.

import (
	"bytes"
	"encoding/csv"
	"fmt"
	"io"
	"math/rand"
	"os"
	"reflect"
	"strconv"
	"strings"
	"testing"
)

type govcWriterTo struct{ b []byte }

func (w govcWriterTo) WriteTo(dst io.Writer) (int64, error) { n, err := dst.Write(w.b); return int64(n), err }

type govcMarshaler struct{ b []byte }

func (m govcMarshaler) MarshalBinary() ([]byte, error) { return m.b, nil }

type govcReaderFrom struct{ buf bytes.Buffer }

func (r *govcReaderFrom) ReadFrom(src io.Reader) (int64, error) { return r.buf.ReadFrom(src) }

type govcUnmarshaler struct{ b []byte }

func (u *govcUnmarshaler) UnmarshalBinary(b []byte) error { u.b = append([]byte{}, b...); return nil }

type govcRecReader struct {
	recs [][]string
	i    int
}

func (r *govcRecReader) Read() ([]string, error) {
	if r.i >= len(r.recs) {
		return nil, io.EOF
	}
	r.i++
	return r.recs[r.i-1], nil
}

type govcRecWriter struct {
	recs    [][]string
	flushed int
}

func (w *govcRecWriter) Write(rec []string) error { w.recs = append(w.recs, append([]string{}, rec...)); return nil }
func (w *govcRecWriter) Flush()                   { w.flushed++ }
func (w *govcRecWriter) Error() error             { return nil }

func govcParse(t *testing.T, b []byte, comma rune, what string) [][]string {
	rd := csv.NewReader(bytes.NewReader(b))
	rd.Comma = comma
	rd.FieldsPerRecord = -1
	recs, err := rd.ReadAll()
	if err != nil {
		t.Fatalf("GOVC-STANDIN-FAIL %s: the CSV text %q does not parse: %v", what, b, err)
	}
	return recs
}

func TestGovcStandInCSVKinds(t *testing.T) {
	seed, _ := strconv.ParseInt(os.Getenv("VERIF_SEED"), 10, 64)
	rounds := 40
	if os.Getenv("VERIF_TIER") == "thorough" {
		rounds = 1200
	}
	r := rand.New(rand.NewSource(seed + 10))
	cells := []string{"a", "b c", "é", "1,5", "semi;colon", "quo\"te", "multi\nline", "tab\there", " lead", "x"}
	checks := 0
	for i := 0; i < rounds; i++ {
		rows, cols := 1+r.Intn(5), 1+r.Intn(4)
		table := make([][]string, rows)
		for a := range table {
			table[a] = make([]string, cols)
			for b := range table[a] {
				table[a][b] = cells[r.Intn(len(cells))]
			}
		}
		comma := []rune{',', ';', '\t'}[r.Intn(3)]
		skip := r.Intn(rows + 2) // may exceed the number of records
		want := [][]string{}
		if skip < rows {
			want = table[skip:]
		}
		var text bytes.Buffer
		w := csv.NewWriter(&text)
		w.Comma = comma
		_ = w.WriteAll(table)
		opts := []CSVOpt{WithCSVReaderOpts(csv.Reader{Comma: comma, FieldsPerRecord: -1}), WithCSVWriterOpts(csv.Writer{Comma: comma}), WithCSVSkipLines(skip)}
		desc := fmt.Sprintf("table %q, separator %q, %d skipped lines", table, comma, skip)

		// ---- producer: every source kind must write the same records
		mkReader := func() *csv.Reader { rd := csv.NewReader(bytes.NewReader(text.Bytes())); rd.Comma = comma; rd.FieldsPerRecord = -1; return rd }
		sources := map[string]interface{}{
			"*csv.Reader": mkReader(), "CSVReader": &govcRecReader{recs: table}, "io.Reader": bytes.NewReader(text.Bytes()),
			"io.WriterTo": govcWriterTo{text.Bytes()}, "BinaryMarshaler": govcMarshaler{text.Bytes()},
			"[][]string": table, "[]byte": text.Bytes(), "string": text.String(),
		}
		for kind, src := range sources {
			var out bytes.Buffer
			if err := CSVProducer(opts...).Produce(&out, src); err != nil {
				t.Fatalf("GOVC-STANDIN-FAIL producer, source kind %s, %s: %v", kind, desc, err)
			}
			checks++
			got := govcParse(t, out.Bytes(), comma, "producer, source kind "+kind+", "+desc)
			if len(got) != len(want) || (len(want) > 0 && !reflect.DeepEqual(got, want)) {
				t.Fatalf("GOVC-STANDIN-FAIL producer, source kind %s, %s: wrote records %q, want %q", kind, desc, got, want)
			}
		}
		// ---- consumer: every destination kind must receive the same records
		var outW bytes.Buffer
		cw := csv.NewWriter(&outW)
		recW := &govcRecWriter{}
		var outIO bytes.Buffer
		rf := &govcReaderFrom{}
		um := &govcUnmarshaler{}
		var tbl [][]string
		var bs []byte
		var str string
		dests := map[string]interface{}{"*csv.Writer": cw, "CSVWriter": recW, "io.Writer": &outIO, "io.ReaderFrom": rf, "BinaryUnmarshaler": um, "*[][]string": &tbl, "*[]byte": &bs, "*string": &str}
		for kind, d := range dests {
			if err := CSVConsumer(opts...).Consume(bytes.NewReader(text.Bytes()), d); err != nil {
				t.Fatalf("GOVC-STANDIN-FAIL consumer, destination kind %s, %s: %v", kind, desc, err)
			}
			checks++
			var got [][]string
			switch kind {
			case "*csv.Writer":
				got = govcParse(t, outW.Bytes(), comma, "consumer into *csv.Writer, "+desc)
			case "CSVWriter":
				got = recW.recs
			case "io.Writer":
				got = govcParse(t, outIO.Bytes(), comma, "consumer into io.Writer, "+desc)
			case "io.ReaderFrom":
				got = govcParse(t, rf.buf.Bytes(), comma, "consumer into io.ReaderFrom, "+desc)
			case "BinaryUnmarshaler":
				got = govcParse(t, um.b, comma, "consumer into BinaryUnmarshaler, "+desc)
			case "*[][]string":
				got = tbl
			case "*[]byte":
				got = govcParse(t, bs, comma, "consumer into *[]byte, "+desc)
			case "*string":
				got = govcParse(t, []byte(str), comma, "consumer into *string, "+desc)
			}
			if len(got) != len(want) || (len(want) > 0 && !reflect.DeepEqual(got, want)) {
				t.Fatalf("GOVC-STANDIN-FAIL consumer, destination kind %s, %s: delivered records %q, want %q", kind, desc, got, want)
			}
		}
		_ = strings.TrimSpace
	}
	fmt.Printf("GOVC-STANDIN name=csv-kinds rounds=%d checks=%d\n", rounds, checks)
}
