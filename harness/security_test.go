package middleware_test

// Bounded stand-in (not a proof): the contracts of C02 prove the AND over the schemes of an alternative, the OR over the
// alternatives and what Authorize does with each outcome; that the alternatives the router builds ARE the description's
// requirement sets comes from go-openapi/analysis (library) and is not decided by them. The whole statement is checked
// here end to end on requirement structures and per-scheme outcomes BUILT from their parts: whether a request must be
// admitted, and with which status it must be refused, is computed from the structure itself (a direct transcription of
// the statement, not of the code). Every structure is served repeatedly because the order in which the schemes of an
// alternative are evaluated is a map iteration order. Injected with `go test -overlay` by /verif's check of C02.

import (
	"encoding/json"
	"errors"
	"fmt"
	"math/rand"
	"net/http"
	"net/http/httptest"
	"os"
	"strconv"
	"testing"

	swaggererrors "github.com/go-openapi/errors"
	"github.com/go-openapi/loads"
	"github.com/go-openapi/runtime"
	"github.com/go-openapi/runtime/middleware"
	"github.com/go-openapi/runtime/middleware/untyped"
)

const (
	govcNA       = iota // the scheme finds no credentials in the request
	govcAccept          // accepted, principal non-nil
	govcNilPrinc        // accepted, nil principal
	govcReject          // credentials presented and rejected with an error
)

func TestGovcStandInSecurity(t *testing.T) {
	seed, _ := strconv.ParseInt(os.Getenv("VERIF_SEED"), 10, 64)
	rounds := 150
	if os.Getenv("VERIF_TIER") == "thorough" {
		rounds = 6000
	}
	r := rand.New(rand.NewSource(seed + 9))
	schemes := []string{"s1", "s2", "s3"}
	checks := 0
	for i := 0; i < rounds; i++ {
		// requirement structure: 1..3 alternatives, each a non-empty set of schemes, optionally the empty alternative
		var alts [][]string
		for a, n := 0, 1+r.Intn(3); a < n; a++ {
			var alt []string
			for _, s := range schemes {
				if r.Intn(2) == 0 {
					alt = append(alt, s)
				}
			}
			if len(alt) == 0 {
				alt = []string{schemes[r.Intn(3)]}
			}
			alts = append(alts, alt)
		}
		anonymous := r.Intn(4) == 0
		var sec []interface{}
		for _, alt := range alts {
			m := map[string]interface{}{}
			for _, s := range alt {
				m[s] = []string{}
			}
			sec = append(sec, m)
		}
		if anonymous {
			sec = append(sec, map[string]interface{}{})
		}
		defs := map[string]interface{}{}
		for _, s := range schemes {
			defs[s] = map[string]interface{}{"type": "apiKey", "name": "X-" + s, "in": "header"}
		}
		doc := map[string]interface{}{"swagger": "2.0", "info": map[string]interface{}{"title": "t", "version": "1"}, "basePath": "/",
			"consumes": []string{"application/json"}, "produces": []string{"application/json"}, "securityDefinitions": defs,
			"paths": map[string]interface{}{"/x": map[string]interface{}{"get": map[string]interface{}{"operationId": "op", "security": sec,
				"parameters": []interface{}{map[string]interface{}{"name": "n", "in": "query", "type": "integer", "required": true}},
				"responses":  map[string]interface{}{"200": map[string]interface{}{"description": "ok"}}}}}}
		raw, _ := json.Marshal(doc)
		spec, err := loads.Analyzed(json.RawMessage(raw), "")
		if err != nil {
			t.Fatalf("GOVC-STANDIN-FAIL the generated description does not load: %v", err)
		}
		outcome := map[string]int{}
		for _, s := range schemes {
			outcome[s] = r.Intn(4)
		}
		authorizer := r.Intn(3) // 0 none, 1 accepts, 2 denies
		api := untyped.NewAPI(spec)
		for _, s := range schemes {
			s := s
			api.RegisterAuth(s, runtime.AuthenticatorFunc(func(interface{}) (bool, interface{}, error) {
				switch outcome[s] {
				case govcAccept:
					return true, "principal-" + s, nil
				case govcNilPrinc:
					return true, nil, nil
				case govcReject:
					return true, nil, swaggererrors.New(http.StatusUnauthorized, "bad credentials for "+s)
				}
				return false, nil, nil
			}))
		}
		switch authorizer {
		case 1:
			api.RegisterAuthorizer(runtime.AuthorizerFunc(func(*http.Request, interface{}) error { return nil }))
		case 2:
			api.RegisterAuthorizer(runtime.AuthorizerFunc(func(*http.Request, interface{}) error { return errors.New("not yours") }))
		}
		ran := false
		api.RegisterOperation("get", "/x", runtime.OperationHandlerFunc(func(interface{}) (interface{}, error) { ran = true; return map[string]string{}, nil }))
		handler := middleware.Serve(spec, api)

		// the statement, transcribed: an alternative is satisfied when every scheme in it finds credentials and accepts them
		// with a non-nil principal
		satisfied := false
		for _, alt := range alts {
			all := true
			for _, s := range alt {
				if outcome[s] != govcAccept {
					all = false
				}
			}
			if all {
				satisfied = true
			}
		}
		anyReject := false
		for _, alt := range alts {
			for _, s := range alt {
				if outcome[s] == govcReject {
					anyReject = true
				}
			}
		}
		for rep := 0; rep < 4; rep++ { // map iteration order inside an alternative varies between calls
			ran = false
			rec := httptest.NewRecorder()
			// the request is otherwise wrong (required parameter missing): refusals must come first, binding must not run
			handler.ServeHTTP(rec, httptest.NewRequest(http.MethodGet, "http://example.org/x", nil))
			checks++
			desc := fmt.Sprintf("alternatives %v anonymous %v, outcomes %v (0 n/a, 1 accepted, 2 nil principal, 3 rejected), authorizer %d", alts, anonymous, outcome, authorizer)
			switch {
			case satisfied && authorizer != 2:
				// admitted: binding runs and refuses the missing parameter
				if rec.Code != http.StatusUnprocessableEntity || ran {
					t.Fatalf("GOVC-STANDIN-FAIL %s: status %d, handler ran %v; a satisfied alternative must admit the request (then 422 for the missing parameter)", desc, rec.Code, ran)
				}
			case satisfied && authorizer == 2:
				if rec.Code != http.StatusForbidden || ran {
					t.Fatalf("GOVC-STANDIN-FAIL %s: status %d, handler ran %v; want 403 from the authorizer", desc, rec.Code, ran)
				}
			case anonymous && !anyReject:
				want := http.StatusUnprocessableEntity
				if authorizer == 2 {
					want = http.StatusForbidden
				}
				if rec.Code != want || ran {
					t.Fatalf("GOVC-STANDIN-FAIL %s: status %d, handler ran %v; the anonymous alternative must admit the request (status %d)", desc, rec.Code, ran, want)
				}
			default:
				if rec.Code != http.StatusUnauthorized || ran {
					t.Fatalf("GOVC-STANDIN-FAIL %s: status %d, handler ran %v; want 401 and nothing run", desc, rec.Code, ran)
				}
			}
		}
	}
	fmt.Printf("GOVC-STANDIN name=security rounds=%d requests=%d\n", rounds, checks)
}
