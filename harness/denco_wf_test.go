package denco

// Bounded stand-in (not a proof): wf(da), the array shape that the contracts of
// Router.Lookup / doubleArray.lookup ASSUME, is checked on arrays produced by the real
// Build for pseudo-random pattern sets. Injected with `go test -overlay` by /verif's
// check of C05; it lives outside the repository. The predicate below is the executable
// transcription of `spec wf` in middleware/denco/contracts_verif.go with reach and
// pdepth computed by a breadth-first walk from the root cell.

import (
	"fmt"
	"math/rand"
	"os"
	"strconv"
	"strings"
	"testing"
)

func govcWF(da *doubleArray) error {
	if da == nil || len(da.bc) < 2 || len(da.node) < 1 {
		return fmt.Errorf("sizes: %d cells, %d nodes", len(da.bc), len(da.node))
	}
	reach := map[int]bool{1: true}
	pdepth := map[int]int{1: 0}
	queue := []int{1}
	leafOK := func(y, n int) error {
		b := da.bc[y].Base()
		if b >= len(da.node) || da.node[b] == nil {
			return fmt.Errorf("cell %d: BASE %d is not a node", y, b)
		}
		if len(da.node[b].paramNames) != n {
			return fmt.Errorf("cell %d: node has %d names, %d parameters on the way", y, len(da.node[b].paramNames), n)
		}
		return nil
	}
	for len(queue) > 0 {
		x := queue[0]
		queue = queue[1:]
		for c := 1; c < 256; c++ {
			y := nextIndex(da.bc[x].Base(), byte(c))
			if y >= len(da.bc) || da.bc[y].Check() != byte(c) {
				continue
			}
			d := pdepth[x]
			if c == ParamCharacter {
				d++
			}
			if c == TerminationCharacter {
				if err := leafOK(y, pdepth[x]); err != nil {
					return fmt.Errorf("'#' edge %d->%d: %v", x, y, err)
				}
			}
			if c == TerminationCharacter || c == WildcardCharacter {
				continue // these cells hold a node index, not a BASE: they are not walked from
			}
			if reach[y] {
				if pdepth[y] != d {
					return fmt.Errorf("cell %d reached with %d and %d parameters", y, pdepth[y], d)
				}
				continue
			}
			reach[y] = true
			pdepth[y] = d
			queue = append(queue, y)
		}
		if da.bc[x].IsSingleParam() {
			if y := nextIndex(da.bc[x].Base(), ParamCharacter); y >= len(da.bc) || da.bc[y].Check() != ParamCharacter {
				return fmt.Errorf("single-parameter cell %d: no ':' edge", x)
			}
		}
		if da.bc[x].IsWildcardParam() {
			y := nextIndex(da.bc[x].Base(), WildcardCharacter)
			if y >= len(da.bc) {
				return fmt.Errorf("wildcard cell %d: no '*' edge", x)
			}
			if err := leafOK(y, pdepth[x]+1); err != nil {
				return fmt.Errorf("wildcard cell %d: %v", x, err)
			}
		}
	}
	return nil
}

func govcPattern(r *rand.Rand) string {
	segs := []string{"a", "b", "ab", "users", "x", "items", "v1", "a.b", "x-y"}
	var b strings.Builder
	n := 1 + r.Intn(4)
	for i := 0; i < n; i++ {
		b.WriteByte('/')
		switch k := r.Intn(10); {
		case k < 5:
			b.WriteString(segs[r.Intn(len(segs))])
		case k < 9:
			b.WriteString(":p" + strconv.Itoa(i))
		default:
			if i == n-1 {
				b.WriteString("*w")
			} else {
				b.WriteString(segs[r.Intn(len(segs))])
			}
		}
	}
	return b.String()
}

func TestGovcStandInWF(t *testing.T) {
	seed, _ := strconv.ParseInt(os.Getenv("VERIF_SEED"), 10, 64)
	sets := 400
	if os.Getenv("VERIF_TIER") == "thorough" {
		sets = 6000
	}
	r := rand.New(rand.NewSource(seed + 1))
	built, distinct := 0, map[string]bool{}
	for i := 0; i < sets; i++ {
		n := 1 + r.Intn(12)
		seen := map[string]bool{}
		var recs []Record
		for len(recs) < n {
			p := govcPattern(r)
			if seen[p] {
				continue
			}
			seen[p] = true
			recs = append(recs, Record{Key: p, Value: p})
		}
		rt := New()
		if err := rt.Build(recs); err != nil {
			continue // pattern set refused by Build (e.g. conflicting parameter names): outside the property
		}
		built++
		if len(rt.param.node) == 1 {
			continue // no parameterised pattern: Lookup never consults the array
		}
		if rt.SizeHint < 0 {
			t.Fatalf("GOVC-STANDIN-FAIL SizeHint %d after Build(%v)", rt.SizeHint, recs)
		}
		if err := govcWF(rt.param); err != nil {
			t.Fatalf("GOVC-STANDIN-FAIL wf does not hold after Build(%v): %v", recs, err)
		}
		distinct[fmt.Sprint(recs)] = true
	}
	fmt.Printf("GOVC-STANDIN name=denco-wf sets=%d built=%d distinct=%d sample=%q\n", sets, built, len(distinct), func() string {
		for k := range distinct {
			return k
		}
		return ""
	}())
}
