package runtime

// Bounded stand-in (not a proof): the contracts of HasBody and of the peeking reader state that every Read and Close
// is forwarded to the buffered reader wrapped around the original body; that no byte is lost, reordered or invented
// across probes is a law of bufio.Reader (library) that they do not decide. It is checked here on bodies BUILT from
// known bytes and delivered in every awkward way; the oracle is identity. Injected with `go test -overlay` by /verif's
// check of C17.

import (
	"bytes"
	"errors"
	"fmt"
	"io"
	"math/rand"
	"net/http"
	"os"
	"strconv"
	"testing"
	"testing/iotest"
)

type govcBody struct {
	io.Reader
	closed int
}

func (b *govcBody) Close() error { b.closed++; return nil }

type govcErrAfter struct {
	data []byte
	err  error
	done bool
}

func (e *govcErrAfter) Read(p []byte) (int, error) {
	if e.done {
		return 0, e.err
	}
	n := copy(p, e.data)
	e.data = e.data[n:]
	if len(e.data) == 0 {
		e.done = true
		return n, e.err // the last bytes arrive together with the error
	}
	return n, nil
}

func TestGovcStandInHasBody(t *testing.T) {
	seed, _ := strconv.ParseInt(os.Getenv("VERIF_SEED"), 10, 64)
	rounds := 200
	if os.Getenv("VERIF_TIER") == "thorough" {
		rounds = 6000
	}
	r := rand.New(rand.NewSource(seed + 7))
	sizes := []int{0, 1, 2, 4095, 4096, 4097, 8192, 70000}
	boom := errors.New("connection reset")
	checks := 0
	for i := 0; i < rounds; i++ {
		n := sizes[r.Intn(len(sizes))]
		if n > 9000 && i%6 != 0 {
			n = r.Intn(200)
		}
		data := make([]byte, n)
		r.Read(data)
		var src io.Reader = bytes.NewReader(data)
		wantErr := error(nil)
		switch r.Intn(6) {
		case 1:
			src = iotest.OneByteReader(src)
		case 2:
			src = iotest.HalfReader(src)
		case 3:
			src = iotest.DataErrReader(src)
		case 4:
			src = &govcErrAfter{data: append([]byte{}, data...), err: io.EOF}
		case 5:
			src = &govcErrAfter{data: append([]byte{}, data...), err: boom}
			wantErr = boom
		}
		body := &govcBody{Reader: src}
		req, _ := http.NewRequest(http.MethodPost, "http://x/y", nil)
		req.Body = body
		switch r.Intn(3) {
		case 0:
			req.ContentLength = int64(n)
		case 1:
			req.ContentLength = -1
		case 2:
			req.ContentLength = 0 // unknown / not declared: the probe has to look
			if n > 0 {
				req.ContentLength = -1
			}
		}
		probes := 1 + r.Intn(3)
		var answers []bool
		for k := 0; k < probes; k++ {
			answers = append(answers, HasBody(req))
		}
		checks++
		for _, a := range answers {
			if a != answers[0] {
				t.Fatalf("GOVC-STANDIN-FAIL %d bytes, ContentLength %d: repeated probes answer %v", n, req.ContentLength, answers)
			}
		}
		if n > 0 && wantErr == nil && !answers[0] {
			t.Fatalf("GOVC-STANDIN-FAIL %d bytes, ContentLength %d: HasBody answers false for a body with bytes", n, req.ContentLength)
		}
		// read with a buffer size that exercises bufio's large-read bypass as well
		var got bytes.Buffer
		buf := make([]byte, []int{1, 7, 512, 4096, 8192, 100000}[r.Intn(6)])
		var readErr error
		for {
			m, err := req.Body.Read(buf)
			got.Write(buf[:m])
			if err != nil {
				if err != io.EOF {
					readErr = err
				}
				break
			}
			if m == 0 && got.Len() > len(data)+10 {
				break
			}
		}
		if !bytes.Equal(got.Bytes(), data) {
			t.Fatalf("GOVC-STANDIN-FAIL %d bytes (ContentLength %d, %d probes, read buffer %d): %d bytes came back after the probe, first difference at %d", n, req.ContentLength, probes, len(buf), got.Len(), govcFirstDiff(got.Bytes(), data))
		}
		if wantErr != nil && readErr != wantErr {
			t.Fatalf("GOVC-STANDIN-FAIL %d bytes: the body's read error %v was replaced by %v", n, wantErr, readErr)
		}
		if err := req.Body.Close(); err != nil {
			t.Fatalf("GOVC-STANDIN-FAIL closing after the probe: %v", err)
		}
		wrapped := req.Body != io.ReadCloser(body)
		_ = req.Body.Close()
		if wrapped && body.closed != 1 { // (an unwrapped body is the caller's own: closing it twice is the caller's doing)
			t.Fatalf("GOVC-STANDIN-FAIL the original body was closed %d times after two Close calls on the probed body, want once", body.closed)
		}
	}
	fmt.Printf("GOVC-STANDIN name=hasbody rounds=%d checks=%d\n", rounds, checks)
}

func govcFirstDiff(a, b []byte) int {
	for i := 0; i < len(a) && i < len(b); i++ {
		if a[i] != b[i] {
			return i
		}
	}
	if len(a) < len(b) {
		return len(a)
	}
	return len(b)
}
