package client

// Bounded stand-in (not a proof): the contracts of buildHTTP state which library calls build the URL (path.Join,
// url.PathEscape, strings.ReplaceAll, url.Values) and in which order; that the resulting escaped path "has exactly
// the pattern's segments" and that values come back unchanged is a string-level law that no contract within reach
// decides. It is checked here on requests BUILT from their parts: the pattern's segments and the parameter values are
// known, so every segment of the produced URL can be decoded and compared. Injected with `go test -overlay`.

import (
	"fmt"
	"math/rand"
	"net/url"
	"os"
	"strconv"
	"strings"
	"testing"

	"github.com/go-openapi/runtime"
	"github.com/go-openapi/strfmt"
)

func TestGovcStandInClientURL(t *testing.T) {
	seed, _ := strconv.ParseInt(os.Getenv("VERIF_SEED"), 10, 64)
	rounds := 400
	if os.Getenv("VERIF_TIER") == "thorough" {
		rounds = 20000
	}
	r := rand.New(rand.NewSource(seed + 4))
	lits := []string{"pets", "v1", "a.b", "x-y", "items"}
	values := []string{"a", "42", "a/b", "a b", "é", "{id}", "{other}", "..", ".", "%2F", "a+b", "a?b=c", "a#b", "a;b", "a=b&c", ":x", "*", "a%", "\"q\""}
	bases := []string{"", "/", "/api", "/api/", "/api/v2"}
	checks := 0
	for i := 0; i < rounds; i++ {
		base := bases[r.Intn(len(bases))]
		nseg := 1 + r.Intn(4)
		var segs []string          // pattern segments
		want := map[int]string{}   // index in segs -> value expected there
		params := map[string]string{}
		names := []string{"id", "other", "name", "k"}
		r.Shuffle(len(names), func(a, b int) { names[a], names[b] = names[b], names[a] })
		for j := 0; j < nseg; j++ {
			if r.Intn(2) == 0 && len(params) < len(names) {
				n := names[len(params)]
				v := values[r.Intn(len(values))]
				params[n] = v
				want[j] = v
				segs = append(segs, "{"+n+"}")
			} else {
				segs = append(segs, lits[r.Intn(len(lits))])
			}
		}
		pattern := "/" + strings.Join(segs, "/")
		trailing := r.Intn(3) == 0
		if trailing {
			pattern += "/"
		}
		build := func(order []string) *url.URL {
			req := newRequest("GET", pattern, runtime.ClientRequestWriterFunc(func(rq runtime.ClientRequest, _ strfmt.Registry) error {
				for _, n := range order {
					if err := rq.SetPathParam(n, params[n]); err != nil {
						return err
					}
				}
				return nil
			}))
			hr, err := req.BuildHTTP(runtime.JSONMime, base, nil, strfmt.Default)
			if err != nil {
				t.Fatalf("GOVC-STANDIN-FAIL BuildHTTP(base %q, pattern %q, params %v): %v", base, pattern, params, err)
			}
			return hr.URL
		}
		var order []string
		for n := range params {
			order = append(order, n)
		}
		u := build(order)
		// dot segments and empty values are outside the guarantee (paths are normalised by design): skip those rounds
		skip := false
		for _, v := range params {
			if v == "." || v == ".." || v == "" {
				skip = true
			}
		}
		if skip {
			continue
		}
		checks++
		escaped := u.EscapedPath()
		if u.RawQuery != "" || u.Fragment != "" {
			t.Fatalf("GOVC-STANDIN-FAIL base %q pattern %q params %v: a value added a query or fragment: %q ? %q # %q", base, pattern, params, escaped, u.RawQuery, u.Fragment)
		}
		baseSegs := 0
		for _, s := range strings.Split(base, "/") {
			if s != "" {
				baseSegs++
			}
		}
		got := strings.Split(strings.TrimPrefix(escaped, "/"), "/")
		if trailing {
			if !strings.HasSuffix(escaped, "/") {
				t.Fatalf("GOVC-STANDIN-FAIL base %q pattern %q params %v: trailing slash lost: %q", base, pattern, params, escaped)
			}
			got = got[:len(got)-1]
		} else if strings.HasSuffix(escaped, "/") && escaped != "/" {
			t.Fatalf("GOVC-STANDIN-FAIL base %q pattern %q params %v: trailing slash added: %q", base, pattern, params, escaped)
		}
		if len(got) != baseSegs+len(segs) {
			t.Fatalf("GOVC-STANDIN-FAIL base %q pattern %q params %v: escaped path %q has %d segments, want %d", base, pattern, params, escaped, len(got), baseSegs+len(segs))
		}
		for j, s := range segs {
			seg := got[baseSegs+j]
			if v, isParam := want[j]; isParam {
				dec, err := url.PathUnescape(seg)
				if err != nil || dec != v {
					t.Fatalf("GOVC-STANDIN-FAIL base %q pattern %q params %v: segment %d is %q, which does not decode to the value %q", base, pattern, params, j, seg, v)
				}
			} else if seg != s {
				t.Fatalf("GOVC-STANDIN-FAIL base %q pattern %q params %v: literal segment %d is %q, want %q", base, pattern, params, j, seg, s)
			}
		}
		// order independence
		for a, b := 0, len(order)-1; a < b; a, b = a+1, b-1 {
			order[a], order[b] = order[b], order[a]
		}
		if u2 := build(order); u2.String() != u.String() {
			t.Fatalf("GOVC-STANDIN-FAIL base %q pattern %q params %v: the URL depends on the order the parameters were set: %q vs %q", base, pattern, params, u.String(), u2.String())
		}
	}
	fmt.Printf("GOVC-STANDIN name=client-url rounds=%d checked=%d\n", rounds, checks)
}
