package runtime

import (
	"bytes"
	"encoding/csv"
	"strings"
	"testing"
)

// Replay of failed obligations CSVConsumer$1#pre.(csvOpts).applyToWriter.0 and
// CSVProducer$1#pre.(csvOpts).applyToReader.0: a nil *csv.Writer destination or nil
// *csv.Reader source is dereferenced when the options are applied.
func TestReplayCSVNilCSVObjects(t *testing.T) {
	var w *csv.Writer
	var r *csv.Reader
	for name, f := range map[string]func() error{
		"CSVConsumer((*csv.Writer)(nil))": func() error { return CSVConsumer().Consume(strings.NewReader("a,b\n"), w) },
		"CSVProducer((*csv.Reader)(nil))": func() error { return CSVProducer().Produce(&bytes.Buffer{}, r) },
	} {
		func() {
			defer func() {
				if rec := recover(); rec != nil {
					t.Errorf("REPRODUCED: %s panics: %v", name, rec)
				}
			}()
			if err := f(); err == nil {
				t.Errorf("%s: expected an error", name)
			}
		}()
	}
}
