package runtime

import (
	"bytes"
	"encoding/csv"
	"testing"
)

type govcSemicolonCSV struct{}

func (govcSemicolonCSV) MarshalBinary() ([]byte, error) { return []byte("a;b\nc;d\n"), nil }

// Replay of the counterexample to runtime.CSVProducer$1#post.C16:readeropts~6: for a
// BinaryMarshaler source the csv.Reader is created but the reader options are not applied
// to it, unlike every other source kind: the configured separator is ignored.
func TestGovcReplayCSVReaderOptsIgnoredForBinaryMarshaler(t *testing.T) {
	opts := WithCSVReaderOpts(csv.Reader{Comma: ';'})
	var viaMarshaler, viaBytes bytes.Buffer
	if err := CSVProducer(opts).Produce(&viaMarshaler, govcSemicolonCSV{}); err != nil {
		t.Fatal(err)
	}
	if err := CSVProducer(opts).Produce(&viaBytes, []byte("a;b\nc;d\n")); err != nil {
		t.Fatal(err)
	}
	if viaMarshaler.String() != viaBytes.String() || viaBytes.String() != "a,b\nc,d\n" {
		t.Fatalf("REPRODUCED: the same bytes with reader option Comma=';' give %q from a []byte source and %q from a BinaryMarshaler source", viaBytes.String(), viaMarshaler.String())
	}
}
