package runtime

import (
	"bytes"
	"encoding/csv"
	"strings"
	"testing"
)

// Replays of failed obligations of the CSV codec:
//  (*csvRecordsWriter).Write#post.C16:noalias        — records delivered into *[][]string alias one another when the reader reuses its record
//  CSVConsumer$1#pre.(reflect.Value).SetCap.0        — a destination longer than the input panics in reflect.Value.SetCap
//  CSVConsumer$1 / CSVProducer$1#pre.(reflect.Value).Type.0 — typed-nil pointer destination / source panics
func TestReplayCSVAliasing(t *testing.T) {
	var dest [][]string
	consumer := CSVConsumer(WithCSVReaderOpts(csv.Reader{ReuseRecord: true}))
	if err := consumer.Consume(strings.NewReader("a,b\nc,d\ne,f\n"), &dest); err != nil {
		t.Fatal(err)
	}
	if len(dest) != 3 || dest[0][0] != "a" || dest[1][0] != "c" || dest[2][0] != "e" {
		t.Fatalf("REPRODUCED: delivered records alias one another: %v", dest)
	}
}

func TestReplayCSVLongerDestination(t *testing.T) {
	defer func() {
		if r := recover(); r != nil {
			t.Fatalf("REPRODUCED: pre-populated destination longer than the input panics: %v", r)
		}
	}()
	dest := [][]string{{"1"}, {"2"}, {"3"}, {"4"}}
	if err := CSVConsumer().Consume(strings.NewReader("a,b\nc,d\n"), &dest); err != nil {
		t.Fatal(err)
	}
	if len(dest) != 2 || dest[0][0] != "a" || dest[1][1] != "d" {
		t.Fatalf("unexpected records %v", dest)
	}
}

func TestReplayCSVTypedNil(t *testing.T) {
	var bp *[]byte
	for name, f := range map[string]func() error{
		"CSVConsumer(*[]byte)(nil)": func() error { return CSVConsumer().Consume(strings.NewReader("a,b\n"), bp) },
		"CSVProducer(*[]byte)(nil)": func() error { return CSVProducer().Produce(&bytes.Buffer{}, bp) },
	} {
		func() {
			defer func() {
				if r := recover(); r != nil {
					t.Errorf("REPRODUCED: %s panics: %v", name, r)
				}
			}()
			if err := f(); err == nil {
				t.Errorf("%s: expected an error", name)
			}
		}()
	}
}
