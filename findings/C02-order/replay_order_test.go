package middleware

// Replay of the failed bounded stand-in `security` of C02 (harness/security_test.go):
//   alternatives [[s1 s3]] + anonymous, s1 rejects the credentials it was given, s3 finds none: admitted
// The AND over the schemes of an alternative stopped at the first scheme that did not apply, so a rejection by a scheme
// listed after it was never seen and the anonymous alternative admitted the request; with the schemes in the other
// order the same request was refused with 401. The order is the iteration order of a map (go-openapi/analysis), i.e.
// it differs between program starts.
// Inject with:  go test -overlay <ov.json> -vet=off -run TestReplaySchemeOrder ./middleware

import (
	"errors"
	"net/http"
	"testing"

	"github.com/go-openapi/runtime"
)

func TestReplaySchemeOrder(t *testing.T) {
	rejecting := runtime.AuthenticatorFunc(func(interface{}) (bool, interface{}, error) { return true, nil, errors.New("bad credentials") })
	absent := runtime.AuthenticatorFunc(func(interface{}) (bool, interface{}, error) { return false, nil, nil })
	for _, order := range [][]string{{"rejecting", "absent"}, {"absent", "rejecting"}} {
		ras := RouteAuthenticators{
			{Schemes: order, Scopes: map[string][]string{}, Authenticator: map[string]runtime.Authenticator{"rejecting": rejecting, "absent": absent}},
			{allowAnonymous: true},
		}
		req, _ := http.NewRequest(http.MethodGet, "http://x/y", nil)
		applies, usr, err := ras.Authenticate(req, &MatchedRoute{})
		if err == nil {
			t.Errorf("schemes in the order %v: admitted anonymously (applies %v, principal %v) although one scheme rejected the credentials it was given", order, applies, usr)
		}
	}
	// the principal of an alternative: every scheme must yield one, whatever the order
	withP := runtime.AuthenticatorFunc(func(interface{}) (bool, interface{}, error) { return true, "principal", nil })
	nilP := runtime.AuthenticatorFunc(func(interface{}) (bool, interface{}, error) { return true, nil, nil })
	var outcomes []bool
	for _, order := range [][]string{{"with", "nil"}, {"nil", "with"}} {
		ra := &RouteAuthenticator{Schemes: order, Scopes: map[string][]string{}, Authenticator: map[string]runtime.Authenticator{"with": withP, "nil": nilP}}
		req, _ := http.NewRequest(http.MethodGet, "http://x/y", nil)
		_, usr, _ := ra.Authenticate(req, &MatchedRoute{})
		outcomes = append(outcomes, usr != nil)
	}
	if outcomes[0] != outcomes[1] {
		t.Errorf("an alternative of two schemes, one yielding no principal: a principal is handed over in one order (%v) and not in the other (%v)", outcomes[0], outcomes[1])
	}
}
