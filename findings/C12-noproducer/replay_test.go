package client

import (
	"testing"

	"github.com/go-openapi/runtime"
	"github.com/go-openapi/strfmt"
)

// Replay of the counterexample to (*request).buildHTTP#safe.nil.invoke.Produce: an
// operation that consumes a form media type (for which createHttpRequest does not
// require a registered producer) and whose writer sets a body payload makes buildHTTP
// call Produce on a nil Producer: the call panics instead of returning an error.
func TestGovcReplayNoProducerForFormMime(t *testing.T) {
	for _, mime := range []string{runtime.URLencodedFormMime, runtime.MultipartFormMime} {
		func() {
			defer func() {
				if r := recover(); r != nil {
					t.Errorf("REPRODUCED: consumes %q with a body payload panics: %v", mime, r)
				}
			}()
			rt := New("localhost:1", "/", []string{"http"})
			_, err := rt.CreateHttpRequest(&runtime.ClientOperation{
				ID:                 "op",
				Method:             "POST",
				PathPattern:        "/things",
				ConsumesMediaTypes: []string{mime},
				ProducesMediaTypes: []string{runtime.JSONMime},
				Params: runtime.ClientRequestWriterFunc(func(req runtime.ClientRequest, _ strfmt.Registry) error {
					return req.SetBodyParam(map[string]string{"a": "b"})
				}),
			})
			if err == nil {
				t.Errorf("consumes %q with a body payload: no producer, yet no error", mime)
			}
		}()
	}
}
