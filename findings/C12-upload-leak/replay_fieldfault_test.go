package client

import (
	"bytes"
	"sync/atomic"
	"testing"
	"time"

	"github.com/go-openapi/runtime"
	"github.com/go-openapi/strfmt"
)

type closeCountingFile struct {
	*bytes.Buffer
	closed int32
}

func (c *closeCountingFile) Name() string { return "f.bin" }
func (c *closeCountingFile) Close() error { atomic.AddInt32(&c.closed, 1); return nil }

// Replay of the counterexample to (*request).buildHTTP$1#post.C12:filesclosed~4: when
// writing a form field fails (the transport gave up on the request body), the
// writer goroutine returns before it has registered the deferred closing of the
// files, so the files handed over for upload are never closed.
func TestGovcReplayFilesNotClosedOnFieldFault(t *testing.T) {
	file := &closeCountingFile{Buffer: bytes.NewBufferString("payload")}
	reqWrtr := runtime.ClientRequestWriterFunc(func(req runtime.ClientRequest, _ strfmt.Registry) error {
		if err := req.SetFormParam("field", "value"); err != nil {
			return err
		}
		return req.SetFileParam("file", file)
	})
	r := newRequest("POST", "/upload", reqWrtr)
	req, err := r.BuildHTTP(runtime.MultipartFormMime, "/", nil, nil)
	if err != nil {
		t.Fatal(err)
	}
	// the transport abandons the request before reading the body
	if err := req.Body.Close(); err != nil {
		t.Fatal(err)
	}
	deadline := time.Now().Add(2 * time.Second)
	for time.Now().Before(deadline) && atomic.LoadInt32(&file.closed) == 0 {
		time.Sleep(10 * time.Millisecond)
	}
	if atomic.LoadInt32(&file.closed) == 0 {
		t.Fatalf("REPRODUCED: the upload was abandoned while the form fields were written and the file was never closed")
	}
}
