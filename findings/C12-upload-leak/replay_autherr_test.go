package client

import (
	"bytes"
	"errors"
	"runtime"
	"sync/atomic"
	"testing"
	"time"

	rt "github.com/go-openapi/runtime"
	"github.com/go-openapi/strfmt"
)

type closeCountingFile2 struct {
	*bytes.Buffer
	closed int32
}

func (c *closeCountingFile2) Name() string { return "f.bin" }
func (c *closeCountingFile2) Close() error { atomic.AddInt32(&c.closed, 1); return nil }

// Replay of the counterexample to (*request).buildHTTP#post.C12:pipeclosed: buildHTTP
// returns an error after the multipart writer goroutine was started (here: the auth
// writer fails) without closing the pipe, so the goroutine blocks forever on its
// first write and the upload files are never closed.
func TestGovcReplayGoroutineLeakOnAuthError(t *testing.T) {
	file := &closeCountingFile2{Buffer: bytes.NewBufferString("payload")}
	reqWrtr := rt.ClientRequestWriterFunc(func(req rt.ClientRequest, _ strfmt.Registry) error {
		return req.SetFileParam("file", file)
	})
	auth := rt.ClientAuthInfoWriterFunc(func(rt.ClientRequest, strfmt.Registry) error {
		return errors.New("no credentials")
	})
	before := runtime.NumGoroutine()
	r := newRequest("POST", "/upload", reqWrtr)
	_, err := r.buildHTTP(rt.MultipartFormMime, "/", nil, nil, auth)
	if err == nil {
		t.Fatal("expected the auth error")
	}
	deadline := time.Now().Add(2 * time.Second)
	for time.Now().Before(deadline) && (atomic.LoadInt32(&file.closed) == 0 || runtime.NumGoroutine() > before) {
		time.Sleep(10 * time.Millisecond)
	}
	if atomic.LoadInt32(&file.closed) == 0 || runtime.NumGoroutine() > before {
		t.Fatalf("REPRODUCED: after the failed call %d goroutine(s) remain and the file was closed %d times", runtime.NumGoroutine()-before, file.closed)
	}
}
