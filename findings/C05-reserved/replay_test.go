package denco

import "testing"

// Replay of the counterexample to (*doubleArray).lookup#inv.loop0.0.preserve (pdepth(da, idx) ==
// len(params) is not preserved when the looked-up path contains ':' - the literal walk follows the
// parameter edge of the trie without capturing a parameter): a match is reported that carries no
// value for the pattern's placeholder.
func TestGovcReplayReservedByteInPath(t *testing.T) {
	rt := New()
	if err := rt.Build([]Record{{Key: "/:a", Value: "pattern /:a"}}); err != nil {
		t.Fatal(err)
	}
	for _, path := range []string{"/:", "/*", "/:a"} {
		data, params, found := rt.Lookup(path)
		if found && len(params) != 1 {
			t.Errorf("REPRODUCED: Lookup(%q) reports a match of %v with %d parameters; the pattern has one placeholder", path, data, len(params))
		}
		if found && len(params) == 1 && params[0].Value != path[1:] {
			t.Errorf("REPRODUCED: Lookup(%q) binds a=%q", path, params[0].Value)
		}
		if !found {
			t.Errorf("REPRODUCED: Lookup(%q) finds nothing although /:a is instantiated by it", path)
		}
	}
}
