package client

import (
	"io"
	"testing"
	"time"

	"github.com/go-openapi/runtime"
	"github.com/go-openapi/strfmt"
)

// Replay of the counterexample to (*request).buildHTTP#post.C11:bodykind: a request
// whose media type is multipart/form-data but which carries only a body payload (no
// form or file fields) gets the reading end of a pipe nobody writes to as its body;
// the producer's encoding of the payload goes to a buffer that is never sent.
func TestGovcReplayPayloadWithMultipartMime(t *testing.T) {
	reqWrtr := runtime.ClientRequestWriterFunc(func(req runtime.ClientRequest, _ strfmt.Registry) error {
		return req.SetBodyParam("the payload")
	})
	r := newRequest("POST", "/things", reqWrtr)
	producers := map[string]runtime.Producer{runtime.MultipartFormMime: runtime.TextProducer()}
	req, err := r.BuildHTTP(runtime.MultipartFormMime, "/", producers, nil)
	if err != nil {
		t.Fatal(err)
	}
	done := make(chan string, 1)
	go func() {
		b, _ := io.ReadAll(req.Body)
		done <- string(b)
	}()
	select {
	case got := <-done:
		if got != "the payload" {
			t.Fatalf("REPRODUCED: sent body %q, payload encoding %q", got, "the payload")
		}
	case <-time.After(time.Second):
		t.Fatalf("REPRODUCED: the request body is a pipe that is never written; the encoded payload %q stays in the buffer", r.buf.String())
	}
}
