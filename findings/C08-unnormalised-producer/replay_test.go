package middleware

import (
	stdContext "context"
	"io"
	"net/http"
	"net/http/httptest"
	"testing"

	"github.com/go-openapi/runtime"
	"github.com/go-openapi/runtime/internal/testing/petstore"
)

// Replay of failed obligations (*Context).Respond#post.C08:producer / #post.C08:noroutebody:
// when the negotiated media type carries parameters ("text/plain; charset=utf-8") the
// producer is looked up with the un-normalised string, is not found, and the default
// (JSON) producer writes the body under a text/plain Content-Type.
func TestReplayRespondUsesProducerOfNegotiatedType(t *testing.T) {
	spec, api := petstore.NewAPI(t)
	ctx := NewContext(spec, api, nil)
	ctx.router = DefaultRouter(spec, ctx.api)
	request, _ := http.NewRequestWithContext(stdContext.Background(), http.MethodGet, "/api/pets", nil)
	request.Header.Set(runtime.HeaderAccept, "text/plain")
	ri, request, _ := ctx.RouteInfo(request)
	called := ""
	ri.Producers["text/plain"] = runtime.ProducerFunc(func(w io.Writer, data interface{}) error {
		called = "text"
		_, err := w.Write([]byte(data.(string)))
		return err
	})
	produces := []string{"text/plain; charset=utf-8"}
	rec := httptest.NewRecorder()
	ctx.Respond(rec, request, produces, ri, "hello")
	if ct := rec.Header().Get("Content-Type"); ct != "text/plain; charset=utf-8" {
		t.Fatalf("unexpected content type %q", ct)
	}
	if called != "text" || rec.Body.String() != "hello" {
		t.Fatalf("REPRODUCED: Content-Type %q but body %q written by another producer (text producer called: %v)", rec.Header().Get("Content-Type"), rec.Body.String(), called == "text")
	}
}
