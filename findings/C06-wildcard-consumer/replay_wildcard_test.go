package middleware_test

// Replay of the failed bounded stand-in `gate-respond` of C06 (harness/gate_respond_test.go):
//   POST with Content-Type "application/x-yaml" to an operation consuming [application/*]: status 500, nothing ran
// A media type admitted through a wildcard entry of the operation's consumes list was refused with 500 "no consumer
// registered" although the API has a consumer for it: the route's consumer table is built from the literal entries of
// the list only, and nothing looked further.
// Inject with:  go test -overlay <ov.json> -vet=off -run TestReplayWildcardConsumes ./middleware

import (
	"encoding/json"
	"io"
	"net/http"
	"net/http/httptest"
	"strings"
	"testing"

	"github.com/go-openapi/loads"
	"github.com/go-openapi/runtime"
	"github.com/go-openapi/runtime/middleware"
	"github.com/go-openapi/runtime/middleware/untyped"
)

func TestReplayWildcardConsumes(t *testing.T) {
	doc := `{"swagger":"2.0","info":{"title":"t","version":"1"},"basePath":"/","consumes":["application/json"],"produces":["application/json"],
	 "paths":{"/things":{"post":{"operationId":"op","consumes":["application/*"],
	   "parameters":[{"name":"body","in":"body","schema":{"type":"object"}}],"responses":{"200":{"description":"ok"}}}}}}`
	spec, err := loads.Analyzed(json.RawMessage(doc), "")
	if err != nil {
		t.Fatal(err)
	}
	api := untyped.NewAPI(spec)
	consumed := ""
	api.RegisterConsumer("application/x-yaml", runtime.ConsumerFunc(func(rd io.Reader, v interface{}) error {
		consumed = "application/x-yaml"
		_, _ = io.ReadAll(rd)
		return nil
	}))
	ran := false
	api.RegisterOperation("post", "/things", runtime.OperationHandlerFunc(func(interface{}) (interface{}, error) { ran = true; return map[string]string{}, nil }))
	rec := httptest.NewRecorder()
	req := httptest.NewRequest(http.MethodPost, "http://example.org/things", strings.NewReader("a: 1"))
	req.Header.Set("Content-Type", "application/x-yaml")
	middleware.Serve(spec, api).ServeHTTP(rec, req)
	if rec.Code != http.StatusOK || !ran || consumed != "application/x-yaml" {
		t.Errorf("status %d, handler ran %v, consumer %q: want 200 through the application/x-yaml consumer (admitted by application/*)", rec.Code, ran, consumed)
	}
}
