#!/bin/sh
# Replays the finding on the real code of /repo (nothing is written there).
d=$(mktemp -d); here=$(cd "$(dirname "$0")" && pwd)
printf '{"Replace": {"/repo/client/zz_govc_replay_c11ct_test.go": "%s/replay_urlencoded_files_test.go"}}' "$here" > $d/ov.json
export GOFLAGS=-mod=mod GOPROXY=off GOSUMDB=off GOTOOLCHAIN=local
cd /repo && go test -overlay $d/ov.json -vet=off -timeout 60s -count=1 -run TestGovcReplayC11ContentTypeDescribes -v ./client; rc=$?
rm -rf $d; exit $rc
