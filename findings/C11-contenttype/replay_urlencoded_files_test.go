package client

// Replay of the known finding client.mangleContentType#post.C11:describesurlencoded~2 (property C11:
// "the Content-Type header describes what was sent"). An operation whose chosen media type is
// application/x-www-form-urlencoded and which carries a file parameter is sent as a multipart
// document (isMultipart is true whenever there are files), but the header announces
// "application/x-www-form-urlencoded; boundary=...": a standard server refuses to read the body
// as multipart and finds no form value when it reads it as what the header says.
// Injected with: go test -overlay (see run.sh). Fails on the unchanged tree.

import (
	"bytes"
	"io"
	"mime"
	"net/http"
	"strings"
	"testing"

	"github.com/go-openapi/runtime"
	"github.com/go-openapi/strfmt"
)

func TestGovcReplayC11ContentTypeDescribes(t *testing.T) {
	w := runtime.ClientRequestWriterFunc(func(rq runtime.ClientRequest, _ strfmt.Registry) error {
		_ = rq.SetFormParam("note", "hello")
		return rq.SetFileParam("upload", runtime.NamedReader("a.txt", io.NopCloser(strings.NewReader("file content"))))
	})
	r := newRequest(http.MethodPost, "/upload", w)
	req, err := r.BuildHTTP(runtime.URLencodedFormMime, "/", nil, strfmt.Default)
	if err != nil {
		t.Fatal(err)
	}
	ct := req.Header.Get("Content-Type")
	body, err := io.ReadAll(req.Body)
	if err != nil {
		t.Fatal(err)
	}
	mt, _, _ := mime.ParseMediaType(ct)
	t.Logf("Content-Type: %q; body starts %q", ct, string(body[:40]))

	// what a standard server makes of it
	srv, _ := http.NewRequest(http.MethodPost, "http://x/upload", bytes.NewReader(body))
	srv.Header.Set("Content-Type", ct)
	perr := srv.ParseMultipartForm(1 << 20)
	if mt != "multipart/form-data" && bytes.HasPrefix(body, []byte("--")) {
		t.Errorf("a multipart document was sent under Content-Type %q (ParseMultipartForm: %v; form value note=%q)", ct, perr, srv.FormValue("note"))
	}
}
