package runtime

import (
	"strings"
	"testing"
)

func TestNilAnyPtr(t *testing.T) {
	defer func() {
		if r := recover(); r != nil {
			t.Fatalf("REPRODUCED: ByteStreamConsumer((*interface{})(nil)) panics: %v", r)
		}
	}()
	var ap *interface{}
	if err := ByteStreamConsumer().Consume(strings.NewReader("x"), ap); err == nil {
		t.Fatal("expected an error")
	}
}
