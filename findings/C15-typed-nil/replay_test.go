package runtime

import (
	"bytes"
	"strings"
	"testing"
)

// Replay of failed obligations TextConsumer$1#pre.(reflect.Value).SetString.0,
// TextProducer$1#pre.(reflect.Value).Type.0, ByteStreamConsumer$1 / ByteStreamProducer$1
// #pre.(reflect.Value).Type.0: a typed-nil pointer destination or source reaches
// reflect operations on the zero Value, which panic.
func TestReplayTypedNilPointer(t *testing.T) {
	var sp *string
	var bp *[]byte
	cases := map[string]func() error{
		"ByteStreamConsumer(*string)(nil)": func() error { return ByteStreamConsumer().Consume(strings.NewReader("x"), sp) },
		"ByteStreamConsumer(*[]byte)(nil)": func() error { return ByteStreamConsumer().Consume(strings.NewReader("x"), bp) },
		"ByteStreamProducer(*string)(nil)": func() error { return ByteStreamProducer().Produce(&bytes.Buffer{}, sp) },
		"TextConsumer(*string)(nil)":       func() error { return TextConsumer().Consume(strings.NewReader("x"), sp) },
		"TextProducer(*string)(nil)":       func() error { return TextProducer().Produce(&bytes.Buffer{}, sp) },
	}
	for name, f := range cases {
		func() {
			defer func() {
				if r := recover(); r != nil {
					t.Errorf("REPRODUCED: %s panics: %v", name, r)
				}
			}()
			if err := f(); err == nil {
				t.Errorf("%s: expected an error", name)
			}
		}()
	}
}
