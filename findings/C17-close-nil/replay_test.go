package runtime

import (
	"net/http"
	"testing"
)

// Replay of failed obligation (*peekingReader).Close#safe.nil.field.underlying:
// HasBody on a request whose Body is nil installs a typed-nil *peekingReader as
// r.Body; closing it dereferences the nil receiver.
func TestReplayPeekingReaderCloseNil(t *testing.T) {
	defer func() {
		if r := recover(); r != nil {
			t.Fatalf("REPRODUCED: Close on the body installed by HasBody panics: %v", r)
		}
	}()
	req := &http.Request{Method: http.MethodPost, Header: http.Header{}}
	if HasBody(req) {
		t.Fatal("nil body reported as present")
	}
	if req.Body != nil {
		_ = req.Body.Close()
	}
}
