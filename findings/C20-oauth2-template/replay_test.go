package middleware

import (
	"net/http"
	"net/http/httptest"
	"strings"
	"testing"
)

// Replay of failed obligation middleware.SwaggerUIOAuth2Callback#post.C20:escape:
// the OAuth2 callback page is rendered with text/template, so option values are
// not HTML-escaped.
func TestReplayOAuth2CallbackEscapes(t *testing.T) {
	h := SwaggerUIOAuth2Callback(SwaggerUIOpts{Title: `</title><script>alert(1)</script>`}, nil)
	rec := httptest.NewRecorder()
	req := httptest.NewRequest(http.MethodGet, "/docs/oauth2-callback", nil)
	h.ServeHTTP(rec, req)
	if rec.Code != http.StatusOK {
		t.Fatalf("status %d", rec.Code)
	}
	if strings.Contains(rec.Body.String(), "<script>alert(1)</script>") {
		t.Fatalf("REPRODUCED: title served unescaped: %q", rec.Body.String()[:120])
	}
}
