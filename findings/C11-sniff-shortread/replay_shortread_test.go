package client

// Replay of the failed bounded stand-in `multipart` of C11 (harness/multipart_test.go):
//   file "no-ext" (444 bytes, no declared type): no part carrying its content is labelled with the sniffed type
// The upload's content type was sniffed from whatever the FIRST Read call returned. A reader that delivers its data
// in small pieces (a pipe, a network stream; here one byte at a time) got its part labelled from one byte:
// a PNG file was sent as text/plain.
// Inject with:  go test -overlay <ov.json> -vet=off -run TestReplaySniffAfterShortRead ./client

import (
	"bytes"
	"io"
	"mime"
	"mime/multipart"
	"net/http"
	"testing"
	"testing/iotest"

	"github.com/go-openapi/runtime"
	"github.com/go-openapi/strfmt"
)

func TestReplaySniffAfterShortRead(t *testing.T) {
	png := append([]byte("\x89PNG\r\n\x1a\n"), bytes.Repeat([]byte{0}, 100)...)
	req := newRequest(http.MethodPost, "/upload", runtime.ClientRequestWriterFunc(func(rq runtime.ClientRequest, _ strfmt.Registry) error {
		return rq.SetFileParam("file", runtime.NamedReader("picture", iotest.OneByteReader(bytes.NewReader(png))))
	}))
	hr, err := req.BuildHTTP(runtime.MultipartFormMime, "/api", nil, strfmt.Default)
	if err != nil {
		t.Fatal(err)
	}
	_, params, _ := mime.ParseMediaType(hr.Header.Get("Content-Type"))
	part, err := multipart.NewReader(hr.Body, params["boundary"]).NextPart()
	if err != nil {
		t.Fatal(err)
	}
	body, _ := io.ReadAll(part)
	if !bytes.Equal(body, png) {
		t.Errorf("content changed: %d bytes", len(body))
	}
	if got := part.Header.Get("Content-Type"); got != "image/png" {
		t.Errorf("part labelled %q, want image/png (the type sniffed from the content)", got)
	}
}
