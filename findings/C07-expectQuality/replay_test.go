package header

import (
	"math"
	"net/http"
	"strings"
	"testing"
)

// Replay of failed obligations header.expectQuality#safe.overflow.* / #post.Q1:
// the accumulators n and d overflow for q-values with 19 or more digits.
func TestReplayExpectQualityOverflow(t *testing.T) {
	for _, digits := range []int{19, 20, 63, 64, 70} {
		in := "0." + strings.Repeat("9", digits)
		q, _ := expectQuality(in)
		if !(q == -1 || (q >= 0 && q <= 1)) || math.IsNaN(q) || math.IsInf(q, 0) {
			t.Errorf("expectQuality(%q) = %v: not -1 and not in [0,1]", in, q)
		}
	}
	h := http.Header{"Accept": []string{"text/plain;q=0." + strings.Repeat("0", 64) + ", text/html;q=0.1"}}
	for _, s := range ParseAccept(h, "Accept") {
		if math.IsNaN(s.Q) || math.IsInf(s.Q, 0) || s.Q < 0 {
			t.Errorf("ParseAccept produced spec %q with Q=%v", s.Value, s.Q)
		}
	}
}
