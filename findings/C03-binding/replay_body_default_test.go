package middleware

// Replay of the failed obligation (*middleware.untypedParamBinder).Bind#pre.(reflect.Value).Set.0
// (precondition of reflect.Value.Set: the value's type is assignable to the target's type).
// A body parameter that carries a default whose Go type does not fit the target (here a string where the untyped
// target is map[string]interface{}) and a request without a body: target.Set(reflect.ValueOf(default)) panicked.
// Inject with:  go test -overlay <ov.json> -vet=off -run TestReplayBodyDefaultOfAnotherType ./middleware

import (
	"net/http"
	"testing"

	"github.com/go-openapi/spec"
	"github.com/go-openapi/strfmt"
)

func TestReplayBodyDefaultOfAnotherType(t *testing.T) {
	defer func() {
		if r := recover(); r != nil {
			t.Errorf("binding panicked: %v", r)
		}
	}()
	p := spec.BodyParam("b", spec.MapProperty(spec.StringProperty()))
	p.Default = "not an object"
	binder := NewUntypedRequestBinder(map[string]spec.Parameter{"b": *p}, new(spec.Swagger), strfmt.Default)
	req, _ := http.NewRequest(http.MethodGet, "http://x/y", nil)
	data := map[string]interface{}{}
	if err := binder.Bind(req, nil, nil, &data); err == nil {
		t.Errorf("a default that does not fit the target was accepted: %#v", data)
	}
}
