package middleware

import (
	"reflect"
	"testing"

	"github.com/go-openapi/spec"
	"github.com/go-openapi/strfmt"
)

// Replay of the counterexample to (*untypedParamBinder).setFieldValue#pre.setFieldValue.1
// (the recursive call for pointer targets): the recursion is handed the reflect.Value of
// the default instead of the default itself, so a pointer-typed boolean target with a
// default and an empty value calls Bool() on a struct Value and panics.
func TestGovcReplayPointerTargetWithDefault(t *testing.T) {
	defer func() {
		if r := recover(); r != nil {
			t.Fatalf("REPRODUCED: binding an absent value to a *bool target with default true panics: %v", r)
		}
	}()
	param := spec.QueryParam("flag").Typed("boolean", "").WithDefault(true)
	binder := newUntypedParamBinder(*param, new(spec.Swagger), strfmt.Default)
	var target struct{ Flag *bool }
	fld := reflect.ValueOf(&target).Elem().Field(0)
	if err := binder.setFieldValue(fld, param.Default, "", false); err != nil {
		t.Fatalf("bind: %v", err)
	}
	if target.Flag == nil || !*target.Flag {
		t.Fatalf("REPRODUCED: *bool target with default true bound to %v", target.Flag)
	}
}
