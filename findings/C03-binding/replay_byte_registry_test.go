package middleware

// Replay of the failed obligation (*middleware.untypedParamBinder).setFieldValue#pre.(reflect.Value).SetBytes.0
// (precondition of reflect.Value.SetBytes: the target is a settable byte slice).
// A `format: byte` parameter bound with a formats registry that does not register "byte": the target is a plain
// string, and the decoded value was stored with SetBytes -> reflect panic on every request carrying the parameter.
// Inject with:  go test -overlay <ov.json> -vet=off -run TestReplayByteWithoutRegisteredFormat ./middleware

import (
	"net/http"
	"testing"

	"github.com/go-openapi/spec"
	"github.com/go-openapi/strfmt"
)

func TestReplayByteWithoutRegisteredFormat(t *testing.T) {
	for _, target := range []string{"http://x/y?d=aGVsbG8=", "http://x/y"} {
		func() {
			defer func() {
				if r := recover(); r != nil {
					t.Errorf("%s: binding panicked: %v", target, r)
				}
			}()
			p := spec.QueryParam("d").Typed("string", "byte")
			binder := NewUntypedRequestBinder(map[string]spec.Parameter{"d": *p}, new(spec.Swagger), strfmt.NewSeededFormats(nil, nil))
			req, _ := http.NewRequest(http.MethodGet, target, nil)
			data := map[string]interface{}{}
			if err := binder.Bind(req, nil, nil, &data); err == nil {
				t.Errorf("%s: a byte parameter without a []byte target was accepted: %#v", target, data)
			}
		}()
	}
}
