package middleware

import (
	"net/http"
	"net/http/httptest"
	"testing"

	"github.com/go-openapi/spec"
	"github.com/go-openapi/strfmt"
)

// Replay of the counterexample to (*untypedParamBinder).readValue#post.C03:key: a header
// parameter declared in lower case is looked up under its declared spelling in
// http.Header, whose keys are canonical, so it is never bound.
func TestGovcReplayLowerCaseHeaderParam(t *testing.T) {
	param := spec.HeaderParam("x-request-id").Typed("string", "")
	binder := NewUntypedRequestBinder(map[string]spec.Parameter{"x-request-id": *param}, new(spec.Swagger), strfmt.Default)
	req := httptest.NewRequest(http.MethodGet, "/things", nil)
	req.Header.Set("x-request-id", "abc123")
	data := map[string]interface{}{}
	if err := binder.Bind(req, nil, nil, &data); err != nil {
		t.Fatalf("REPRODUCED: the client sent the header, binding answers: %v", err)
	}
	if got := data["x-request-id"]; got != "abc123" {
		t.Fatalf("REPRODUCED: header parameter declared as %q bound to %#v, the client sent %q", "x-request-id", got, "abc123")
	}
}
