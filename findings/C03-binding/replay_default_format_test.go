package middleware

// Replay of the failed obligation (*middleware.untypedParamBinder).tryUnmarshaler#pre.(reflect.Value).Set.0~2
// (precondition of reflect.Value.Set: the value's type is assignable to the target's type).
// A string parameter with a registered format (date, byte, duration, uuid, ...) and a `default` in the description
// document: the default arrives as a Go string, the target is strfmt.Date / strfmt.UUID / strfmt.Base64, and
// target.Set(reflect.ValueOf(default)) panicked whenever the parameter was absent from the request.
// Inject with:  go test -overlay <ov.json> -vet=off -run TestReplayDefaultOnFormattedString ./middleware

import (
	"net/http"
	"testing"

	"github.com/go-openapi/spec"
	"github.com/go-openapi/strfmt"
)

func TestReplayDefaultOnFormattedString(t *testing.T) {
	for _, c := range []struct {
		format string
		def    string
		want   string
	}{{"date", "2020-01-02", "2020-01-02"}, {"byte", "aGVsbG8=", "aGVsbG8="}, {"duration", "3s", "3s"}} {
		func() {
			defer func() {
				if r := recover(); r != nil {
					t.Errorf("format %s: binding panicked: %v", c.format, r)
				}
			}()
			p := spec.QueryParam("d").Typed("string", c.format)
			p.Default = c.def
			binder := NewUntypedRequestBinder(map[string]spec.Parameter{"d": *p}, new(spec.Swagger), strfmt.Default)
			req, _ := http.NewRequest(http.MethodGet, "http://x/y", nil)
			data := map[string]interface{}{}
			if err := binder.Bind(req, nil, nil, &data); err != nil {
				t.Errorf("format %s: %v", c.format, err)
				return
			}
			type stringer interface{ String() string }
			got, ok := data["d"].(stringer)
			if !ok || got.String() != c.want {
				t.Errorf("format %s: bound %#v, want the declared default %q", c.format, data["d"], c.want)
			}
		}()
	}
}
