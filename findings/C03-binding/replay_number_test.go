package middleware

import (
	"net/http"
	"net/http/httptest"
	"testing"

	"github.com/go-openapi/spec"
	"github.com/go-openapi/strfmt"
)

// Replay of the counterexample to (*untypedParamBinder).typeForSchema#post.C03:type: a
// query parameter declared `type: number` without a format has no Go type, and the
// request binder then dereferences the (nil) schema of the non-body parameter.
func TestGovcReplayNumberWithoutFormat(t *testing.T) {
	defer func() {
		if r := recover(); r != nil {
			t.Fatalf("REPRODUCED: binding a `type: number` parameter without format panics: %v", r)
		}
	}()
	param := spec.QueryParam("ratio").Typed("number", "")
	binder := NewUntypedRequestBinder(map[string]spec.Parameter{"ratio": *param}, new(spec.Swagger), strfmt.Default)
	req := httptest.NewRequest(http.MethodGet, "/things?ratio=0.5", nil)
	data := map[string]interface{}{}
	if err := binder.Bind(req, nil, nil, &data); err != nil {
		t.Fatalf("bind: %v", err)
	}
	if got, ok := data["ratio"].(float64); !ok || got != 0.5 {
		t.Fatalf("REPRODUCED: ratio bound to %#v, want float64 0.5", data["ratio"])
	}
}
