package middleware

import (
	"net/http"
	"net/http/httptest"
	"testing"

	"github.com/go-openapi/spec"
	"github.com/go-openapi/strfmt"
)

// Replay of the counterexample to (*untypedParamBinder).setSliceFieldValue#post.C03:defaulttype:
// the default of an array parameter comes out of the description document as []interface{};
// when the parameter is absent it is stored into the []string target with reflect.Value.Set,
// which panics.
func TestGovcReplayArrayParamWithDefault(t *testing.T) {
	defer func() {
		if r := recover(); r != nil {
			t.Fatalf("REPRODUCED: binding an absent array parameter that declares a default panics: %v", r)
		}
	}()
	param := spec.QueryParam("tags").CollectionOf(spec.NewItems().Typed("string", ""), "csv").WithDefault([]interface{}{"a", "b"})
	binder := NewUntypedRequestBinder(map[string]spec.Parameter{"tags": *param}, new(spec.Swagger), strfmt.Default)
	req := httptest.NewRequest(http.MethodGet, "/things", nil)
	data := map[string]interface{}{}
	if err := binder.Bind(req, nil, nil, &data); err != nil {
		t.Fatalf("bind: %v", err)
	}
	got, ok := data["tags"].([]string)
	if !ok || len(got) != 2 || got[0] != "a" || got[1] != "b" {
		t.Fatalf("REPRODUCED: tags bound to %#v, want the declared default [a b]", data["tags"])
	}
}
