package middleware

import "testing"

// Replay of failed obligation middleware.decodeCompositParams#safe.slice~7:
// when the literal separator between two placeholders of one segment (2+ bytes) does
// not occur in the value, value[vright+len(toskip):] is sliced with vright == -1.
func TestReplayDecodeCompositParamsMissingSeparator(t *testing.T) {
	defer func() {
		if r := recover(); r != nil {
			t.Fatalf("REPRODUCED: decodeCompositParams(\"a\", \"foo\", \"--{b}\") panics: %v", r)
		}
	}()
	names, values := decodeCompositParams("a", "foo", "--{b}", nil, nil)
	if len(names) != 2 || len(values) != 2 {
		t.Fatalf("unexpected result %v %v", names, values)
	}
}
