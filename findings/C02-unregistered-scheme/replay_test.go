package middleware

import (
	"net/http"
	"net/http/httptest"
	"testing"

	"github.com/go-openapi/runtime"
)

// Replay of failed obligation (*RouteAuthenticator).Authenticate#post.C02:registered:
// an alternative {a, b} where only a has a registered authenticator is admitted on a
// alone, although not every scheme of the alternative accepted credentials.
func TestReplayUnregisteredSchemeSkipped(t *testing.T) {
	accept := runtime.AuthenticatorFunc(func(interface{}) (bool, interface{}, error) { return true, "principal-of-a", nil })
	ra := &RouteAuthenticator{
		Schemes:       []string{"a", "b"},
		Authenticator: map[string]runtime.Authenticator{"a": accept},
		Scopes:        map[string][]string{"a": nil, "b": nil},
	}
	req := httptest.NewRequest(http.MethodGet, "/", nil)
	applies, princ, err := ra.Authenticate(req, &MatchedRoute{})
	if applies && err == nil {
		t.Fatalf("REPRODUCED: alternative {a,b} satisfied with principal %v although scheme b has no authenticator", princ)
	}
}
