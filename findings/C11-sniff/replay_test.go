package client

import (
	"bytes"
	"io"
	"mime"
	"mime/multipart"
	"testing"

	"github.com/go-openapi/runtime"
	"github.com/go-openapi/strfmt"
)

// Replay of the counterexample to (*request).buildHTTP$1#post.C11:sniff: the content
// type of an uploaded file is sniffed from the whole zero-padded 512-byte buffer
// instead of the bytes that were read, so a short text file is labelled
// application/octet-stream.
func TestGovcReplaySniffShortFile(t *testing.T) {
	content := "hello, world\n"
	reqWrtr := runtime.ClientRequestWriterFunc(func(req runtime.ClientRequest, _ strfmt.Registry) error {
		return req.SetFileParam("file", runtime.NamedReader("note.txt", bytes.NewBufferString(content)))
	})
	r := newRequest("POST", "/upload", reqWrtr)
	req, err := r.BuildHTTP(runtime.MultipartFormMime, "/", nil, nil)
	if err != nil {
		t.Fatal(err)
	}
	_, params, err := mime.ParseMediaType(req.Header.Get("Content-Type"))
	if err != nil {
		t.Fatal(err)
	}
	mr := multipart.NewReader(req.Body, params["boundary"])
	part, err := mr.NextPart()
	if err != nil {
		t.Fatal(err)
	}
	body, _ := io.ReadAll(part)
	if string(body) != content {
		t.Fatalf("content: %q", body)
	}
	if got := part.Header.Get("Content-Type"); got != "text/plain; charset=utf-8" {
		t.Fatalf("REPRODUCED: a %d-byte text file is sent with part Content-Type %q (sniffed from the zero-padded buffer)", len(content), got)
	}
}
