package client

import (
	"bytes"
	"io"
	"testing"
)

// Replay of the counterexample to (*drainingReadCloser).Read#post.C12:eofseen:
// a Read that returns n == 0 with a nil error (here: a zero-length destination)
// marks the end of the body as seen although it was not, so Close skips the
// drain and the connection cannot be reused.
func TestGovcReplayKeepAliveZeroRead(t *testing.T) {
	under := newCountingReader(bytes.NewBufferString("0123456789"), false)
	d := &drainingReadCloser{rdr: under}
	n, err := d.Read(nil)
	if n != 0 || err != nil {
		t.Fatalf("setup: zero-length read returned %d, %v", n, err)
	}
	if err := d.Close(); err != nil {
		t.Fatal(err)
	}
	rest, _ := io.ReadAll(under.rdr)
	if len(rest) != 0 {
		t.Fatalf("REPRODUCED: the end of the body was never seen, yet Close left %d bytes undrained", len(rest))
	}
}
