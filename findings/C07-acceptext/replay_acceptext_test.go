package middleware

// Replay of the failed bounded stand-in `parseaccept` of C07 (harness/parseaccept_test.go: header lines built
// from their parts, expected ranges known by construction):
//   ParseAccept("text/html;q=0.5;level=1,text/html"): 1 ranges, want 2
// A media range whose weight is followed by further parameters (accept-ext, RFC 7231 5.3.2) ended the whole
// header line: every range after it was dropped, so a client accepting JSON with the default weight was served
// HTML (or refused with 406) because an earlier range carried `;q=0.5;level=1`.
// Inject with:  go test -overlay <ov.json> -vet=off -run TestReplayAcceptExtension ./middleware

import (
	"net/http"
	"testing"
)

func TestReplayAcceptExtension(t *testing.T) {
	r, _ := http.NewRequest(http.MethodGet, "http://x/y", nil)
	r.Header.Set("Accept", "text/html;q=0.5;level=1, application/json")
	if got := NegotiateContentType(r, []string{"text/html", "application/json"}, ""); got != "application/json" {
		t.Errorf("negotiated %q, want application/json (weight 1 beats 0.5)", got)
	}
	r.Header.Set("Accept", "text/plain;q=0.1;x=y, application/json;q=0.2")
	if got := NegotiateContentType(r, []string{"application/json"}, ""); got != "application/json" {
		t.Errorf("negotiated %q, want application/json (the only acceptable offer; the handler would be refused with 406)", got)
	}
}
