#!/bin/sh
# mkseed.sh <name>: scratch worktree of /repo HEAD for a mutation sub-agent, without the contract files
d=/tmp/seed/$1
rm -rf $d; mkdir -p /tmp/seed
git -C /repo worktree add -q --detach $d/wt HEAD || exit 1
find $d/wt -name contracts_verif.go -delete
mkdir -p $d/out
echo $d
