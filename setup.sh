#!/bin/sh
# Build the verification engine offline from files on disk only.
set -e
cd "$(dirname "$0")"
export GOFLAGS=-mod=mod GOPROXY=off GOSUMDB=off GOTOOLCHAIN=local CGO_ENABLED=0
mkdir -p bin evidence replays
[ -d cmd/govc ] && go build -o bin/govc ./cmd/govc
exit 0
